#!/bin/bash
# exploratory sweep (not a registered check): C01/C02 with symbolic options and n=4
cd /verif/engine && PATH=/opt/veriftools/go1.26.8/bin:$PATH GOTOOLCHAIN=local GOFLAGS=-mod=mod GOPROXY=off GOSUMDB=off go build -o /tmp/symgo-sweep . || exit 1
export VERIF_DIR=$(cd .. && pwd)
for l in 0 1 2 3 4; do
  /tmp/symgo-sweep run -pkg syntax -fn Verif_c01_roundtrip -j 16 -p n=3 -p lang=$l -p alpha=1 -p symopts=1 -p mode=3 -v 2>&1 | grep -v "sample:"
done
for l in 0 1 2 4; do
  /tmp/symgo-sweep run -pkg syntax -fn Verif_c01_roundtrip -j 16 -p n=4 -p lang=$l -p alpha=1 -p symopts=0 -p mode=3 -v 2>&1 | grep -v "sample:"
done
