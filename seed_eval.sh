#!/bin/bash
# usage: seed_eval.sh <seed-id> <property> <pkgdir-of-demo> <check-tier> [extra checks...]
# 1. confirms the seeded change in a scratch worktree (builds, existing tests pass, demo fails with / passes without)
# 2. applies it to /repo, runs the property's check, undoes it
# 3. files the seed under /verif/seeded/<seed-id>/
set -u
sid=$1; prop=$2; pkg=$3; tier=${4:-quick}
src=/tmp/seed/$sid/_seed
wt=/tmp/seedchk/$sid
out=/verif/seeded/$sid
mkdir -p /tmp/seedchk $out
git -C /repo worktree remove --force $wt 2>/dev/null
git -C /repo worktree add -q $wt HEAD || exit 2
log=$out/confirm.log; : > $log
cd $wt
demo=$(grep -o 'func Test[A-Za-z0-9_]*' $src/demo_test.go | head -1 | sed 's/func //')
cp $src/demo_test.go $wt/$pkg/zz_demo_test.go
echo "== demo without patch" >> $log
(go test -count=1 -run "^$demo\$" ./$pkg/ >> $log 2>&1) && wo=pass || wo=fail
git apply $src/patch.diff >> $log 2>&1 || { echo "patch does not apply" | tee -a $log; }
echo "== build with patch" >> $log
(go build ./... >> $log 2>&1) && bld=ok || bld=fail
echo "== demo with patch" >> $log
(go test -count=1 -run "^$demo\$" ./$pkg/ >> $log 2>&1) && wi=pass || wi=fail
rm -f $wt/$pkg/zz_demo_test.go
echo "== existing tests with patch" >> $log
go test -count=1 ./syntax/... ./expand/ ./pattern/ ./shell/ ./fileutil/ ./cmd/... ./interp/ 2>&1 | grep -E "^(ok|FAIL|---|\s+--- FAIL)" >> $log
newfail=$(grep -E "^\s+--- FAIL" $log | grep -v -E "TestRunnerRun/#13(17|18|19|20|21)" | head -5)
cd /
git -C /repo worktree remove --force $wt
echo "confirm: demo_without_patch=$wo build=$bld demo_with_patch=$wi new_test_failures=[$newfail]"
# run my check on /repo with the patch
git -C /repo apply $src/patch.diff || { echo "cannot apply to /repo"; exit 2; }
cd /verif
bin/symgo check $prop --tier $tier > $out/check_$prop.log 2>&1
rc=$?
git -C /repo checkout -- . 
git -C /repo status --short | head -3
v=$(grep -c "^VIOLATION" $out/check_$prop.log)
echo "check $prop ($tier) on seeded tree: rc=$rc violations=$v"
grep -E "confirmed natively|counterexample in the OS" $out/check_$prop.log | head -3 | cut -c1-300
cp $src/patch.diff $src/demo_test.go $out/
python3 - <<PY
import json
m=json.load(open('$src/meta.json'))
m['confirmed_by_me']={'scratch_worktree':'$wt (removed)','demo_without_patch':'$wo','build_with_patch':'$bld','demo_with_patch':'$wi','new_existing_test_failures':'''$newfail''','check_run':'bin/symgo check $prop --tier $tier','check_exit':$rc,'violations_reported':$v}
json.dump(m,open('$out/meta.json','w'),indent=1)
PY
rm -rf /verif/replays/$prop
