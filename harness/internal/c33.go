package internal

var verifTags = [...]string{"t0", "t1", "t2", "t3", "t4"}
var verifIdxIDs = [...]string{"idx0", "idx1", "idx2", "idx3", "idx4"}

// verifArr builds an arbitrary array state of L elements: dense, or sparse
// with symbolic indexes under the representation invariant.
func verifArr(L int) (list []string, indexes []int) {
	list = make([]string, L, L+verifParam("spare"))
	for i := range list {
		list[i] = verifTags[i]
	}
	if L == 0 || !verifBool("sparse") {
		return list, nil
	}
	indexes = make([]int, L, L+verifParam("spare"))
	identity := true
	for i := range indexes {
		indexes[i] = verifInt(verifIdxIDs[i])
		verifAssume(indexes[i] >= 0)
		if i > 0 {
			verifAssume(indexes[i-1] < indexes[i])
		}
		if indexes[i] != i {
			identity = false
		}
	}
	verifAssume(!identity) // canonical form: identity indexes are stored as nil
	return list, indexes
}

func verifIndexOf(indexes []int, n, i int) int {
	if indexes == nil {
		return i
	}
	return indexes[i]
}

func verifLookup(list []string, indexes []int, q int) (string, bool) {
	for i := range list {
		if verifIndexOf(indexes, len(list), i) == q {
			return list[i], true
		}
	}
	return "", false
}

func verifInvariant(list []string, indexes []int) {
	if indexes == nil {
		return
	}
	verifAssert(len(indexes) == len(list), "indexes and list differ in length")
	identity := true
	for i := range indexes {
		verifAssert(indexes[i] >= 0, "negative index stored")
		if i > 0 {
			verifAssert(indexes[i-1] < indexes[i], "indexes not strictly increasing")
		}
		if indexes[i] != i {
			identity = false
		}
	}
	verifAssert(!identity || len(indexes) == 0, "dense array stored with explicit indexes")
}

// Verif_c33_kernel: one arbitrary Set/Delete step from an arbitrary valid
// array state behaves like the same step on a map from indices to values.
func Verif_c33_kernel() {
	L := verifParam("L")
	op := verifParam("op")
	list, indexes := verifArr(L)
	// the map the pre-state denotes
	preIdx := make([]int, L)
	preVal := make([]string, L)
	for i := range preIdx {
		preIdx[i] = verifIndexOf(indexes, L, i)
		preVal[i] = list[i]
	}
	preMax := IndexedMax(list, indexes)
	if L == 0 {
		verifAssert(preMax == -1, "IndexedMax of an empty array is not -1")
	} else {
		verifAssert(preMax == preIdx[L-1], "IndexedMax is not the largest index")
	}
	k := verifInt("k")
	var nl []string
	var ni []int
	switch op {
	case 0:
		verifAssume(k >= 0)
		nl, ni = SetIndexedElem(list, indexes, k, "new")
	case 1:
		nl, ni = DeleteIndexedElem(list, indexes, k)
	}
	verifInvariant(nl, ni)
	_, had := verifLookup(preVal, preIdx, k)
	// preIdx acts as explicit indexes for the pre-state
	switch op {
	case 0:
		v, ok := verifLookup(nl, ni, k)
		verifAssert(ok && v == "new", "Set: element not found at its index")
		want := L
		if !had {
			want++
		}
		verifAssert(len(nl) == want, "Set: wrong element count")
	case 1:
		_, ok := verifLookup(nl, ni, k)
		verifAssert(!ok, "Delete: element still present")
		want := L
		if had {
			want--
		}
		verifAssert(len(nl) == want, "Delete: wrong element count")
	}
	for i := 0; i < L; i++ {
		if preIdx[i] == k {
			continue
		}
		v, ok := verifLookup(nl, ni, preIdx[i])
		verifAssert(ok && v == preVal[i], "an unrelated element changed or vanished")
	}
	verifReach("end")
}
