// Package zzverifshim holds reflection-free replacements for the parts of
// fmt/errors the subject uses. The engine redirects calls (fmt.Sprintf ->
// Fmt_Sprintf, ...). It is only ever loaded through the build overlay.
package zzverifshim

import (
	"io"
	"strconv"
	"unicode/utf8"
)

// engine intrinsics
func verifUnderlying(x any) any  { return x }
func verifTypeName(x any) string { return "?" }

type stringer interface{ String() string }

type fmtError struct{ s string }

func (e *fmtError) Error() string { return e.s }

type wrapError struct {
	msg string
	err error
}

func (e *wrapError) Error() string { return e.msg }
func (e *wrapError) Unwrap() error { return e.err }

func Fmt_Sprintf(format string, a ...any) string { return doPrintf(format, a) }

func Fmt_Errorf(format string, a ...any) error {
	s := doPrintf(format, a)
	// find %w operand
	argNum := 0
	for i := 0; i < len(format); i++ {
		if format[i] != '%' {
			continue
		}
		i++
		for i < len(format) && (format[i] == '#' || format[i] == '0' || format[i] == '+' || format[i] == '-' || format[i] == ' ' ||
			(format[i] >= '0' && format[i] <= '9') || format[i] == '.' || format[i] == '*') {
			if format[i] == '*' {
				argNum++
			}
			i++
		}
		if i >= len(format) {
			break
		}
		if format[i] == '%' {
			continue
		}
		if format[i] == 'w' && argNum < len(a) {
			if e, ok := a[argNum].(error); ok {
				return &wrapError{s, e}
			}
		}
		argNum++
	}
	return &fmtError{s}
}

func Fmt_Fprintf(w io.Writer, format string, a ...any) (int, error) {
	return io.WriteString(w, doPrintf(format, a))
}

func Fmt_Sprint(a ...any) string                      { return doPrint(a, false) }
func Fmt_Sprintln(a ...any) string                    { return doPrint(a, true) }
func Fmt_Fprint(w io.Writer, a ...any) (int, error)   { return io.WriteString(w, doPrint(a, false)) }
func Fmt_Fprintln(w io.Writer, a ...any) (int, error) { return io.WriteString(w, doPrint(a, true)) }
func Fmt_Print(a ...any) (int, error) {
	s := doPrint(a, false)
	VStdoutNode.Data = append(VStdoutNode.Data, s...)
	return len(s), nil
}
func Fmt_Println(a ...any) (int, error) {
	s := doPrint(a, true)
	VStdoutNode.Data = append(VStdoutNode.Data, s...)
	return len(s), nil
}
func Fmt_Printf(format string, a ...any) (int, error) {
	s := doPrintf(format, a)
	VStdoutNode.Data = append(VStdoutNode.Data, s...)
	return len(s), nil
}

func isString(x any) bool {
	switch verifUnderlying(x).(type) {
	case string:
		return true
	}
	return false
}

func doPrint(a []any, ln bool) string {
	var out []byte
	prevString := false
	for i, x := range a {
		s := isString(x)
		if ln {
			if i > 0 {
				out = append(out, ' ')
			}
		} else if i > 0 && !s && !prevString {
			out = append(out, ' ')
		}
		out = append(out, fmtValue(x, 'v', false)...)
		prevString = s
	}
	if ln {
		out = append(out, '\n')
	}
	return string(out)
}

type flags struct {
	sharp, zero, plus, minus, space bool
	wid, prec                       int
	widSet, precSet                 bool
}

func toInt(x any) (int, bool) {
	switch v := verifUnderlying(x).(type) {
	case int:
		return v, true
	case int8:
		return int(v), true
	case int16:
		return int(v), true
	case int32:
		return int(v), true
	case int64:
		return int(v), true
	case uint:
		return int(v), true
	case uint8:
		return int(v), true
	case uint16:
		return int(v), true
	case uint32:
		return int(v), true
	case uint64:
		return int(v), true
	}
	return 0, false
}

func doPrintf(format string, a []any) string {
	var out []byte
	argNum := 0
	end := len(format)
	for i := 0; i < end; {
		lasti := i
		for i < end && format[i] != '%' {
			i++
		}
		if i > lasti {
			out = append(out, format[lasti:i]...)
		}
		if i >= end {
			break
		}
		i++ // skip %
		var f flags
	flagLoop:
		for ; i < end; i++ {
			switch format[i] {
			case '#':
				f.sharp = true
			case '0':
				f.zero = true
			case '+':
				f.plus = true
			case '-':
				f.minus = true
			case ' ':
				f.space = true
			default:
				break flagLoop
			}
		}
		if i < end && format[i] == '*' {
			i++
			if argNum < len(a) {
				f.wid, f.widSet = toInt(a[argNum])
				argNum++
				if f.wid < 0 {
					f.wid = -f.wid
					f.minus = true
				}
			}
		} else {
			for i < end && format[i] >= '0' && format[i] <= '9' {
				f.wid = f.wid*10 + int(format[i]-'0')
				f.widSet = true
				i++
			}
		}
		if i < end && format[i] == '.' {
			i++
			f.precSet = true
			if i < end && format[i] == '*' {
				i++
				if argNum < len(a) {
					f.prec, _ = toInt(a[argNum])
					argNum++
				}
			} else {
				for i < end && format[i] >= '0' && format[i] <= '9' {
					f.prec = f.prec*10 + int(format[i]-'0')
					i++
				}
			}
		}
		if i >= end {
			out = append(out, "%!(NOVERB)"...)
			break
		}
		verb, size := rune(format[i]), 1
		if verb >= utf8.RuneSelf {
			verb, size = utf8.DecodeRuneInString(format[i:])
		}
		i += size
		if verb == '%' {
			out = append(out, '%')
			continue
		}
		if argNum >= len(a) {
			out = append(out, "%!"...)
			out = utf8.AppendRune(out, verb)
			out = append(out, "(MISSING)"...)
			continue
		}
		arg := a[argNum]
		argNum++
		body := fmtVerb(arg, verb, &f)
		out = pad(out, body, &f, verb)
	}
	if argNum < len(a) {
		out = append(out, "%!(EXTRA "...)
		for k := argNum; k < len(a); k++ {
			if k > argNum {
				out = append(out, ", "...)
			}
			out = append(out, verifTypeName(a[k])...)
			out = append(out, '=')
			out = append(out, fmtValue(a[k], 'v', false)...)
		}
		out = append(out, ')')
	}
	return string(out)
}

func pad(out []byte, body string, f *flags, verb rune) []byte {
	if !f.widSet {
		return append(out, body...)
	}
	n := utf8.RuneCountInString(body)
	if n >= f.wid {
		return append(out, body...)
	}
	padn := f.wid - n
	if f.minus {
		out = append(out, body...)
		for k := 0; k < padn; k++ {
			out = append(out, ' ')
		}
		return out
	}
	if f.zero && isNumVerb(verb) {
		// zero padding goes after the sign
		sign := ""
		if len(body) > 0 && (body[0] == '-' || body[0] == '+' || body[0] == ' ') {
			sign, body = body[:1], body[1:]
		}
		out = append(out, sign...)
		for k := 0; k < padn; k++ {
			out = append(out, '0')
		}
		return append(out, body...)
	}
	pc := byte(' ')
	if f.zero && (verb == 's' || verb == 'q' || verb == 'v') {
		pc = '0'
	}
	for k := 0; k < padn; k++ {
		out = append(out, pc)
	}
	return append(out, body...)
}

func isNumVerb(v rune) bool {
	switch v {
	case 'd', 'x', 'X', 'o', 'b', 'c', 'U', 'e', 'f', 'g', 'E', 'F', 'G':
		return true
	}
	return false
}

func fmtVerb(arg any, verb rune, f *flags) string {
	switch verb {
	case 'T':
		return verifTypeName(arg)
	case 'v', 's', 'w':
		s := fmtValue(arg, verb, f.sharp)
		if f.precSet && verb == 's' {
			s = truncRunes(s, f.prec)
		}
		if f.plus {
			if _, ok := signedVal(arg); ok && len(s) > 0 && s[0] != '-' {
				s = "+" + s
			}
		}
		return s
	case 'q':
		if arg == nil {
			return "%!q(<nil>)"
		}
		if s, ok := stringOf(arg); ok {
			if f.precSet {
				s = truncRunes(s, f.prec)
			}
			if f.sharp && strconv.CanBackquote(s) {
				return "`" + s + "`"
			}
			if f.plus {
				return strconv.QuoteToASCII(s)
			}
			return strconv.Quote(s)
		}
		if v, ok := signedVal(arg); ok {
			if f.plus {
				return strconv.QuoteRuneToASCII(rune(v))
			}
			return strconv.QuoteRune(rune(v))
		}
		if v, ok := unsignedVal(arg); ok {
			return strconv.QuoteRune(rune(v))
		}
		return "%!q(" + verifTypeName(arg) + "=" + fmtValue(arg, 'v', false) + ")"
	case 'c':
		if v, ok := signedVal(arg); ok {
			return string(rune(v))
		}
		if v, ok := unsignedVal(arg); ok {
			return string(rune(v))
		}
		return "%!c(" + verifTypeName(arg) + "=" + fmtValue(arg, 'v', false) + ")"
	case 'U':
		if v, ok := signedVal(arg); ok {
			s := strconv.FormatInt(v, 16)
			for len(s) < 4 {
				s = "0" + s
			}
			return "U+" + upper(s)
		}
	case 'd', 'x', 'X', 'o', 'b':
		base := 10
		switch verb {
		case 'x', 'X':
			base = 16
		case 'o':
			base = 8
		case 'b':
			base = 2
		}
		if v, ok := signedVal(arg); ok {
			s := strconv.FormatInt(v, base)
			neg := false
			if len(s) > 0 && s[0] == '-' {
				neg = true
				s = s[1:]
			}
			if f.precSet {
				for len(s) < f.prec {
					s = "0" + s
				}
			}
			if verb == 'X' {
				s = upper(s)
			}
			if f.sharp {
				switch verb {
				case 'x':
					s = "0x" + s
				case 'X':
					s = "0X" + s
				case 'o':
					s = "0" + s
				case 'b':
					s = "0b" + s
				}
			}
			switch {
			case neg:
				s = "-" + s
			case f.plus:
				s = "+" + s
			case f.space:
				s = " " + s
			}
			return s
		}
		if v, ok := unsignedVal(arg); ok {
			s := strconv.FormatUint(v, base)
			if f.precSet {
				for len(s) < f.prec {
					s = "0" + s
				}
			}
			if verb == 'X' {
				s = upper(s)
			}
			if f.sharp {
				switch verb {
				case 'x':
					s = "0x" + s
				case 'X':
					s = "0X" + s
				case 'o':
					s = "0" + s
				case 'b':
					s = "0b" + s
				}
			}
			if f.plus {
				s = "+" + s
			} else if f.space {
				s = " " + s
			}
			return s
		}
		if verb == 'x' || verb == 'X' {
			if s, ok := stringOf(arg); ok {
				const hexd = "0123456789abcdef"
				const hexD = "0123456789ABCDEF"
				var o []byte
				for k := 0; k < len(s); k++ {
					if f.space && k > 0 {
						o = append(o, ' ')
					}
					if verb == 'x' {
						o = append(o, hexd[s[k]>>4], hexd[s[k]&15])
					} else {
						o = append(o, hexD[s[k]>>4], hexD[s[k]&15])
					}
				}
				return string(o)
			}
		}
	case 't':
		if b, ok := verifUnderlying(arg).(bool); ok {
			if b {
				return "true"
			}
			return "false"
		}
	case 'e', 'f', 'g', 'E', 'F', 'G':
		prec := -1
		if f.precSet {
			prec = f.prec
		} else if verb != 'g' && verb != 'G' {
			prec = 6
		}
		switch v := verifUnderlying(arg).(type) {
		case float64:
			return strconv.FormatFloat(v, byte(verb), prec, 64)
		case float32:
			return strconv.FormatFloat(float64(v), byte(verb), prec, 32)
		}
	}
	return "%!" + string(verb) + "(" + verifTypeName(arg) + "=" + fmtValue(arg, 'v', false) + ")"
}

func upper(s string) string {
	b := []byte(s)
	for i, c := range b {
		if c >= 'a' && c <= 'z' {
			b[i] = c - 32
		}
	}
	return string(b)
}

func truncRunes(s string, n int) string {
	cnt := 0
	for i := range s {
		if cnt == n {
			return s[:i]
		}
		cnt++
	}
	return s
}

func signedVal(x any) (int64, bool) {
	switch v := verifUnderlying(x).(type) {
	case int:
		return int64(v), true
	case int8:
		return int64(v), true
	case int16:
		return int64(v), true
	case int32:
		return int64(v), true
	case int64:
		return v, true
	}
	return 0, false
}

func unsignedVal(x any) (uint64, bool) {
	switch v := verifUnderlying(x).(type) {
	case uint:
		return uint64(v), true
	case uint8:
		return uint64(v), true
	case uint16:
		return uint64(v), true
	case uint32:
		return uint64(v), true
	case uint64:
		return v, true
	case uintptr:
		return uint64(v), true
	}
	return 0, false
}

// stringOf: the string-like view used by %s %q %x (error and Stringer first).
func stringOf(x any) (string, bool) {
	switch v := x.(type) {
	case error:
		return v.Error(), true
	case stringer:
		return v.String(), true
	}
	switch v := verifUnderlying(x).(type) {
	case string:
		return v, true
	case []byte:
		return string(v), true
	}
	return "", false
}

func fmtValue(x any, verb rune, sharp bool) string {
	if x == nil {
		return "<nil>"
	}
	if s, ok := stringOf(x); ok {
		return s
	}
	if v, ok := signedVal(x); ok {
		return strconv.FormatInt(v, 10)
	}
	if v, ok := unsignedVal(x); ok {
		return strconv.FormatUint(v, 10)
	}
	switch v := verifUnderlying(x).(type) {
	case bool:
		if v {
			return "true"
		}
		return "false"
	case float64:
		return strconv.FormatFloat(v, 'g', -1, 64)
	case float32:
		return strconv.FormatFloat(float64(v), 'g', -1, 32)
	case []string:
		s := "["
		for i, e := range v {
			if i > 0 {
				s += " "
			}
			s += e
		}
		return s + "]"
	case []any:
		s := "["
		for i, e := range v {
			if i > 0 {
				s += " "
			}
			s += fmtValue(e, 'v', false)
		}
		return s + "]"
	}
	return "{" + verifTypeName(x) + "}"
}

// ---- errors ----

func verifComparable(x any) bool               { return true }
func verifAssignTo(target any, err error) bool { return false }

func Errors_Is(err, target error) bool {
	if err == nil || target == nil {
		return err == target
	}
	isComparable := verifComparable(target)
	for {
		if isComparable && err == target {
			return true
		}
		if x, ok := err.(interface{ Is(error) bool }); ok && x.Is(target) {
			return true
		}
		switch x := err.(type) {
		case interface{ Unwrap() error }:
			err = x.Unwrap()
			if err == nil {
				return false
			}
		case interface{ Unwrap() []error }:
			for _, e := range x.Unwrap() {
				if Errors_Is(e, target) {
					return true
				}
			}
			return false
		default:
			return false
		}
	}
}

func Errors_As(err error, target any) bool {
	for err != nil {
		if verifAssignTo(target, err) {
			return true
		}
		if x, ok := err.(interface{ As(any) bool }); ok && x.As(target) {
			return true
		}
		switch x := err.(type) {
		case interface{ Unwrap() error }:
			err = x.Unwrap()
		case interface{ Unwrap() []error }:
			for _, e := range x.Unwrap() {
				if Errors_As(e, target) {
					return true
				}
			}
			return false
		default:
			return false
		}
	}
	return false
}
