package zzverifshim

import (
	"context"
	"io"
	"os/user"
)

func vEOF() error { return io.EOF }

// ---- context.WithValue without reflection ----

type vctx struct {
	context.Context
	key, val any
}

func (c *vctx) Value(key any) any {
	if verifComparable(key) && c.key == key {
		return c.val
	}
	return c.Context.Value(key)
}

func Context_WithValue(parent context.Context, key, val any) context.Context {
	if parent == nil {
		panic("cannot create context from nil parent")
	}
	if key == nil {
		panic("nil key")
	}
	if !verifComparable(key) {
		panic("key is not comparable")
	}
	return &vctx{parent, key, val}
}

// ---- os/user ----

func Os0user_Current() (*user.User, error) {
	return &user.User{Uid: "1000", Gid: "1000", Username: "user", Name: "User", HomeDir: "/h"}, nil
}

func Os0user_Lookup(name string) (*user.User, error) {
	switch name {
	case "user":
		return Os0user_Current()
	case "root":
		return &user.User{Uid: "0", Gid: "0", Username: "root", Name: "root", HomeDir: "/root"}, nil
	}
	return nil, user.UnknownUserError(name)
}
