package zzverifshim

// A small in-memory model of the parts of package os the interpreter and
// shfmt touch. The engine redirects os.X to Os_X.

import (
	"io/fs"
	"os"
	"syscall"
	"time"
)

type VNode struct {
	Dir     bool
	Mode    fs.FileMode
	Data    []byte
	Link    string // symlink target when Mode&ModeSymlink != 0
	Entries []string
}

// VFS is the file system: absolute clean path -> node. Harnesses fill it.
var VFS = map[string]*VNode{
	"/":    {Dir: true, Mode: fs.ModeDir | 0o755},
	"/h":   {Dir: true, Mode: fs.ModeDir | 0o755},
	"/tmp": {Dir: true, Mode: fs.ModeDir | 0o777},
	"/bin": {Dir: true, Mode: fs.ModeDir | 0o755},
}

// Crash-point model: every file-system operation calls vOp first; when the
// operation counter reaches VCrashAt the process "dies" (a panic with
// VCrashMsg which the harness recognises). 0 = never.
var VOps, VCrashAt int

// Fault model: the VFailAt-th operation fails (no space left, quota, I/O
// error) if it is one that creates or writes; 0 = never.
var VFailAt int

const VCrashMsg = "verif: process killed here"

func vOp() {
	VOps++
	if VCrashAt != 0 && VOps == VCrashAt {
		panic(VCrashMsg)
	}
}

// vFault reports whether the current (just counted) operation must fail.
func vFault(op, path string) error {
	if VFailAt != 0 && VOps == VFailAt {
		return &fs.PathError{Op: op, Path: path, Err: syscall.ENOSPC}
	}
	return nil
}

// VCwd is the process working directory.
var VCwd = "/"

// VEnv is the process environment.
var VEnv = []string{"HOME=/h", "PATH=/bin"}

type vInfo struct {
	name string
	n    *VNode
}

func (i vInfo) Name() string { return i.name }
func (i vInfo) Size() int64  { return int64(len(i.n.Data)) }
func (i vInfo) Mode() fs.FileMode {
	return i.n.Mode
}
func (i vInfo) ModTime() time.Time { return time.Time{} }
func (i vInfo) IsDir() bool        { return i.n.Dir }
func (i vInfo) Sys() any           { return nil }

func vBase(p string) string {
	for i := len(p) - 1; i >= 0; i-- {
		if p[i] == '/' {
			if i == len(p)-1 && i > 0 {
				continue
			}
			return p[i+1:]
		}
	}
	return p
}

func vAbs(p string) string {
	if p == "" {
		return p
	}
	if p[0] != '/' {
		if VCwd == "/" {
			p = "/" + p
		} else {
			p = VCwd + "/" + p
		}
	}
	// minimal clean: drop trailing slashes and "/." components
	for len(p) > 1 && p[len(p)-1] == '/' {
		p = p[:len(p)-1]
	}
	return p
}

func vLookup(p string, follow bool) (*VNode, error) {
	if p == "" {
		return nil, syscall.ENOENT
	}
	p = vAbs(p)
	for depth := 0; depth < 8; depth++ {
		n, ok := VFS[p]
		if !ok {
			return nil, syscall.ENOENT
		}
		if follow && n.Mode&fs.ModeSymlink != 0 {
			p = vAbs(n.Link)
			continue
		}
		return n, nil
	}
	return nil, syscall.ELOOP
}

func Os_Stat(name string) (fs.FileInfo, error) {
	vOp()
	n, err := vLookup(name, true)
	if err != nil {
		return nil, &fs.PathError{Op: "stat", Path: name, Err: err}
	}
	return vInfo{vBase(name), n}, nil
}

func Os_Lstat(name string) (fs.FileInfo, error) {
	vOp()
	n, err := vLookup(name, false)
	if err != nil {
		return nil, &fs.PathError{Op: "lstat", Path: name, Err: err}
	}
	return vInfo{vBase(name), n}, nil
}

func Os_Getwd() (string, error) { return VCwd, nil }
func Os_TempDir() string        { return "/tmp" }
func Os_Environ() []string      { return append([]string(nil), VEnv...) }
func Os_Getpid() int            { return 4242 }
func Os_Getppid() int           { return 4241 }
func Os_Getuid() int            { return 1000 }
func Os_Geteuid() int           { return 1000 }
func Os_Getgid() int            { return 1000 }
func Os_Hostname() (string, error) {
	return "host", nil
}
func Os_Getenv(k string) string {
	for _, kv := range VEnv {
		if len(kv) > len(k) && kv[len(k)] == '=' && kv[:len(k)] == k {
			return kv[len(k)+1:]
		}
	}
	return ""
}

type vDirEntry struct{ vInfo }

func (d vDirEntry) Type() fs.FileMode          { return d.n.Mode.Type() }
func (d vDirEntry) Info() (fs.FileInfo, error) { return d.vInfo, nil }

func Os_ReadDir(name string) ([]os.DirEntry, error) {
	vOp()
	n, err := vLookup(name, true)
	if err != nil {
		return nil, &fs.PathError{Op: "open", Path: name, Err: err}
	}
	if !n.Dir {
		return nil, &fs.PathError{Op: "readdirent", Path: name, Err: syscall.ENOTDIR}
	}
	base := vAbs(name)
	var out []os.DirEntry
	for _, e := range n.Entries {
		p := base + "/" + e
		if base == "/" {
			p = "/" + e
		}
		if c, ok := VFS[p]; ok {
			out = append(out, vDirEntry{vInfo{e, c}})
		}
	}
	return out, nil
}

func Os_IsNotExist(err error) bool { return Errors_Is(err, fs.ErrNotExist) }
func Os_IsExist(err error) bool    { return Errors_Is(err, fs.ErrExist) }
func Os_IsPermission(err error) bool {
	return Errors_Is(err, fs.ErrPermission)
}

// ---- files and pipes ----

type vPipe struct {
	buf     []byte
	wclosed bool
	rclosed bool
}

type vFile struct {
	name   string
	node   *VNode
	pos    int
	pipe   *vPipe
	rd, wr bool
	app    bool
	closed bool
}

var vFiles = map[*os.File]*vFile{}

// VStdout / VStderr collect what is written to os.Stdout / os.Stderr.
var VStdoutNode = &VNode{Mode: 0o620 | fs.ModeCharDevice}
var VStderrNode = &VNode{Mode: 0o620 | fs.ModeCharDevice}

func vNewFile(vf *vFile) *os.File {
	f := new(os.File)
	vFiles[f] = vf
	return f
}

func Os_Pipe() (*os.File, *os.File, error) {
	p := &vPipe{}
	return vNewFile(&vFile{name: "|0", pipe: p, rd: true}), vNewFile(&vFile{name: "|1", pipe: p, wr: true}), nil
}

func vParent(p string) string {
	for i := len(p) - 1; i > 0; i-- {
		if p[i] == '/' {
			return p[:i]
		}
	}
	return "/"
}

func Os_OpenFile(name string, flag int, perm fs.FileMode) (*os.File, error) {
	vOp()
	n, err := vLookup(name, true)
	if err != nil {
		if flag&os.O_CREATE == 0 {
			return nil, &fs.PathError{Op: "open", Path: name, Err: err}
		}
		// creating a file can fail (no space, quota, unwritable directory)
		if ferr := vFault("open", name); ferr != nil {
			return nil, ferr
		}
		abs := vAbs(name)
		par, perr := vLookup(vParent(abs), true)
		if perr != nil || !par.Dir {
			return nil, &fs.PathError{Op: "open", Path: name, Err: syscall.ENOENT}
		}
		n = &VNode{Mode: perm & 0o777}
		VFS[abs] = n
		par.Entries = append(par.Entries, vBase(abs))
	} else if flag&os.O_CREATE != 0 && flag&os.O_EXCL != 0 {
		return nil, &fs.PathError{Op: "open", Path: name, Err: syscall.EEXIST}
	}
	acc := flag & (os.O_RDONLY | os.O_WRONLY | os.O_RDWR)
	if n.Dir && acc != os.O_RDONLY {
		return nil, &fs.PathError{Op: "open", Path: name, Err: syscall.EISDIR}
	}
	if flag&os.O_TRUNC != 0 {
		n.Data = nil
	}
	vf := &vFile{name: name, node: n, rd: acc == os.O_RDONLY || acc == os.O_RDWR, wr: acc == os.O_WRONLY || acc == os.O_RDWR, app: flag&os.O_APPEND != 0}
	return vNewFile(vf), nil
}

func Os_Open(name string) (*os.File, error) { return Os_OpenFile(name, os.O_RDONLY, 0) }
func Os_Create(name string) (*os.File, error) {
	return Os_OpenFile(name, os.O_RDWR|os.O_CREATE|os.O_TRUNC, 0o666)
}

// VStdinNode holds what os.Stdin delivers.
var VStdinNode = &VNode{Mode: 0o620 | fs.ModeCharDevice}

func init() {
	// package os is not initialised by the engine; give the standard streams identities
	os.Stdin = vNewFile(&vFile{name: "/dev/stdin", node: VStdinNode, rd: true})
	os.Stdout = vNewFile(&vFile{name: "/dev/stdout", node: VStdoutNode, wr: true, app: true})
	os.Stderr = vNewFile(&vFile{name: "/dev/stderr", node: VStderrNode, wr: true, app: true})
}

func vOf(f *os.File) (*vFile, error) {
	if f == nil {
		return nil, fs.ErrInvalid
	}
	vf := vFiles[f]
	if vf == nil {
		return nil, fs.ErrInvalid
	}
	if vf.closed {
		return nil, fs.ErrClosed
	}
	return vf, nil
}

func OsFile_Read(f *os.File, b []byte) (int, error) {
	vOp()
	vf, err := vOf(f)
	if err != nil {
		return 0, err
	}
	if len(b) == 0 {
		return 0, nil
	}
	if vf.pipe != nil {
		if len(vf.pipe.buf) == 0 {
			if vf.pipe.wclosed {
				return 0, io_EOF
			}
			panic("verif: read on an empty pipe would block (no sequential schedule)")
		}
		n := copy(b, vf.pipe.buf)
		vf.pipe.buf = vf.pipe.buf[n:]
		return n, nil
	}
	if !vf.rd {
		return 0, &fs.PathError{Op: "read", Path: vf.name, Err: syscall.EBADF}
	}
	if vf.pos >= len(vf.node.Data) {
		return 0, io_EOF
	}
	n := copy(b, vf.node.Data[vf.pos:])
	vf.pos += n
	return n, nil
}

func OsFile_Write(f *os.File, b []byte) (int, error) {
	vOp()
	vf, err := vOf(f)
	if err != nil {
		return 0, err
	}
	if ferr := vFault("write", vf.name); ferr != nil && vf.pipe == nil && vf.wr {
		// a short write: half of the bytes reach the file
		half := b[:len(b)/2]
		if vf.app {
			vf.pos = len(vf.node.Data)
		}
		for vf.pos > len(vf.node.Data) {
			vf.node.Data = append(vf.node.Data, 0)
		}
		vf.node.Data = append(vf.node.Data[:vf.pos], half...)
		vf.pos += len(half)
		return len(half), ferr
	}
	if vf.pipe != nil {
		if vf.pipe.rclosed {
			return 0, &fs.PathError{Op: "write", Path: vf.name, Err: syscall.EPIPE}
		}
		vf.pipe.buf = append(vf.pipe.buf, b...)
		return len(b), nil
	}
	if !vf.wr {
		return 0, &fs.PathError{Op: "write", Path: vf.name, Err: syscall.EBADF}
	}
	if vf.app {
		vf.pos = len(vf.node.Data)
	}
	for vf.pos > len(vf.node.Data) {
		vf.node.Data = append(vf.node.Data, 0)
	}
	vf.node.Data = append(vf.node.Data[:vf.pos], b...)
	vf.pos += len(b)
	return len(b), nil
}

func OsFile_WriteString(f *os.File, s string) (int, error) { return OsFile_Write(f, []byte(s)) }

func OsFile_Close(f *os.File) error {
	vOp()
	vf, err := vOf(f)
	if err != nil {
		return err
	}
	if vf.pipe != nil {
		if vf.wr {
			vf.pipe.wclosed = true
		} else {
			vf.pipe.rclosed = true
		}
	}
	if f != os.Stdout && f != os.Stderr && f != os.Stdin {
		vf.closed = true
	}
	return nil
}

func OsFile_Name(f *os.File) string {
	if vf := vFiles[f]; vf != nil {
		return vf.name
	}
	return ""
}
func OsFile_Fd(f *os.File) uintptr { return 3 }
func OsFile_Sync(f *os.File) error {
	vOp()
	return nil
}
func OsFile_SetReadDeadline(f *os.File, t time.Time) error { return nil }
func OsFile_SetDeadline(f *os.File, t time.Time) error     { return nil }
func OsFile_Stat(f *os.File) (fs.FileInfo, error) {
	vOp()
	vf, err := vOf(f)
	if err != nil {
		return nil, err
	}
	if vf.pipe != nil {
		return vInfo{vf.name, &VNode{Mode: fs.ModeNamedPipe | 0o600}}, nil
	}
	return vInfo{vBase(vf.name), vf.node}, nil
}
func OsFile_Chmod(f *os.File, mode fs.FileMode) error {
	vOp()
	vf, err := vOf(f)
	if err != nil {
		return err
	}
	if vf.node != nil {
		vf.node.Mode = vf.node.Mode&^0o777 | mode&0o777
	}
	return nil
}

var io_EOF = vEOF()

func Os_Remove(name string) error {
	vOp()
	abs := vAbs(name)
	if _, ok := VFS[abs]; !ok {
		return &fs.PathError{Op: "remove", Path: name, Err: syscall.ENOENT}
	}
	delete(VFS, abs)
	if par, ok := VFS[vParent(abs)]; ok {
		for i, e := range par.Entries {
			if e == vBase(abs) {
				par.Entries = append(par.Entries[:i:i], par.Entries[i+1:]...)
				break
			}
		}
	}
	return nil
}

func Os_Rename(oldpath, newpath string) error {
	vOp()
	if ferr := vFault("rename", newpath); ferr != nil {
		return &os.LinkError{Op: "rename", Old: oldpath, New: newpath, Err: syscall.ENOSPC}
	}
	oa, na := vAbs(oldpath), vAbs(newpath)
	n, ok := VFS[oa]
	if !ok {
		return &os.LinkError{Op: "rename", Old: oldpath, New: newpath, Err: syscall.ENOENT}
	}
	if _, exists := VFS[na]; !exists {
		if par, ok := VFS[vParent(na)]; ok {
			par.Entries = append(par.Entries, vBase(na))
		} else {
			return &os.LinkError{Op: "rename", Old: oldpath, New: newpath, Err: syscall.ENOENT}
		}
	}
	VFS[na] = n
	delete(VFS, oa)
	if par, ok := VFS[vParent(oa)]; ok {
		for i, e := range par.Entries {
			if e == vBase(oa) {
				par.Entries = append(par.Entries[:i:i], par.Entries[i+1:]...)
				break
			}
		}
	}
	return nil
}

func Os_Chmod(name string, mode fs.FileMode) error {
	vOp()
	n, err := vLookup(name, true)
	if err != nil {
		return &fs.PathError{Op: "chmod", Path: name, Err: err}
	}
	n.Mode = n.Mode&^0o777 | mode&0o777
	return nil
}

func Os_ReadFile(name string) ([]byte, error) {
	vOp()
	n, err := vLookup(name, true)
	if err != nil {
		return nil, &fs.PathError{Op: "open", Path: name, Err: err}
	}
	if n.Dir {
		return nil, &fs.PathError{Op: "read", Path: name, Err: syscall.EISDIR}
	}
	return append([]byte(nil), n.Data...), nil
}

var vTempCounter int

func Os_CreateTemp(dir, pattern string) (*os.File, error) {
	if dir == "" {
		dir = "/tmp"
	}
	for {
		vTempCounter++
		name := dir + "/" + pattern + "tmp" + string(rune('0'+vTempCounter%10))
		f, err := Os_OpenFile(name, os.O_RDWR|os.O_CREATE|os.O_EXCL, 0o600)
		if err == nil || !Errors_Is(err, fs.ErrExist) {
			return f, err
		}
	}
}

func Math0rand0v2_Int64() int64 {
	vTempCounter++
	return int64(vTempCounter)
}

func Os_WriteFile(name string, data []byte, perm fs.FileMode) error {
	f, err := Os_OpenFile(name, os.O_WRONLY|os.O_CREATE|os.O_TRUNC, perm)
	if err != nil {
		return err
	}
	_, err = OsFile_Write(f, data)
	if err1 := OsFile_Close(f); err1 != nil && err == nil {
		err = err1
	}
	return err
}
