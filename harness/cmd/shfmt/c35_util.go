package main

import (
	"bytes"
	"strings"
)

type bytesBuf = bytes.Buffer
type stringsReader = strings.Reader

func newStringsReader(s string) *strings.Reader { return strings.NewReader(s) }
