package main

import (
	"bytes"
	"regexp"
	"strings"

	"mvdan.cc/editorconfig"
)

type bytesBuf = bytes.Buffer
type stringsReader = strings.Reader

func newStringsReader(s string) *strings.Reader { return strings.NewReader(s) }

func verifNewQuery() editorconfig.Query {
	return editorconfig.Query{FileCache: make(map[string]*editorconfig.File), RegexpCache: make(map[string]*regexp.Regexp)}
}
