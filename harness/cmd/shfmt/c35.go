package main

import (
	"io/fs"

	"mvdan.cc/sh/v3/internal/zzverifshim"
	"mvdan.cc/sh/v3/syntax"
)

func verifShfmtReset() {
	parser = syntax.NewParser(syntax.KeepComments(true))
	printer = syntax.NewPrinter()
	readBuf.Reset()
	writeBuf.Reset()
	useEditorConfig = false
	list.val, write.val, diff.val, find.val = "false", false, false, "false"
	simplify.val, minify.val, toJSON.val, fromJSON.val = false, false, false, false
	lang.val = syntax.LangBash
	color = false
}

const verifUnformatted = "echo  hi\nif a;then b;fi\n"

// Verif_c35_atomic: shfmt -w killed before any system call leaves the file
// with its old or its new content, its mode bits, and no temporary files.
func Verif_c35_atomic() {
	verifShfmtReset()
	write.val = true
	perm := fs.FileMode(verifInt("perm")) & 0o777
	kind := verifChoice("kind", 3) // regular, symlink to a regular file, FIFO
	vfs := zzverifshim.VFS
	vfs["/d"] = &zzverifshim.VNode{Dir: true, Mode: fs.ModeDir | 0o755, Entries: []string{"f.sh", "t.sh"}}
	vfs["/d/t.sh"] = &zzverifshim.VNode{Mode: 0o644, Data: []byte(verifUnformatted)}
	switch kind {
	case 0:
		vfs["/d/f.sh"] = &zzverifshim.VNode{Mode: perm, Data: []byte(verifUnformatted)}
	case 1:
		vfs["/d/f.sh"] = &zzverifshim.VNode{Mode: fs.ModeSymlink | 0o777, Link: "/d/t.sh"}
	case 2:
		vfs["/d/f.sh"] = &zzverifshim.VNode{Mode: fs.ModeNamedPipe | perm, Data: []byte(verifUnformatted)}
	}
	// what the formatted file must look like
	f, _ := syntax.NewParser(syntax.KeepComments(true)).Parse(readerOf(verifUnformatted), "")
	var want bytesBuffer
	syntax.NewPrinter().Print(&want, f)
	// crash point: the process dies before the k-th file-system operation
	nOps := verifParam("ops")
	zzverifshim.VOps = 0
	zzverifshim.VCrashAt = 1 + verifChoice("crashAt", nOps+1)
	var err error
	completed := verifNoPanic(func() { err = formatPath("/d/f.sh", false) })
	crashed := !completed
	if crashed {
		verifAssert(verifPanicMsg() == zzverifshim.VCrashMsg, "shfmt -w panicked")
	}
	verifAssert(zzverifshim.VOps <= nOps || crashed, "more file-system operations than the bound covers")
	node := vfs["/d/f.sh"]
	verifAssert(node != nil, "the file vanished")
	if node == nil {
		return
	}
	switch kind {
	case 0:
		data := string(node.Data)
		verifAssert(data == verifUnformatted || data == want.String(), "file holds neither its old nor its new content")
		verifAssert(node.Mode&fs.ModeType == 0, "regular file replaced by something else")
		verifAssert(node.Mode.Perm() == perm, "permission bits changed")
		if completed && err == nil {
			verifAssert(data == want.String(), "a completed run did not write the formatted content")
		}
	case 1:
		verifAssert(node.Mode&fs.ModeSymlink != 0 && node.Link == "/d/t.sh", "symlink was replaced")
		verifAssert(string(vfs["/d/t.sh"].Data) == verifUnformatted, "symlink target was rewritten")
		if completed {
			verifAssert(err != nil, "shfmt -w on a symlink must refuse")
		}
	case 2:
		verifAssert(node.Mode&fs.ModeNamedPipe != 0, "FIFO was replaced")
	}
	if completed {
		verifAssert(len(vfs["/d"].Entries) == 2, "temporary files left behind in the directory")
		verifAssert(len(vfs["/tmp"].Entries) == 0, "temporary files left behind in the temp dir")
		verifReach("completed")
	}
	verifObserve("ops", string(rune('0'+zzverifshim.VOps%10)))
	verifReach("end")
}

// Verif_c35_faults: one file-system operation that creates, writes or renames
// fails (disk full, quota, I/O error) - and the process may additionally be
// killed later: the file still holds its old or its new content.
func Verif_c35_faults() {
	verifShfmtReset()
	write.val = true
	perm := fs.FileMode(verifInt("perm")) & 0o777
	vfs := zzverifshim.VFS
	vfs["/d"] = &zzverifshim.VNode{Dir: true, Mode: fs.ModeDir | 0o755, Entries: []string{"f.sh"}}
	vfs["/d/f.sh"] = &zzverifshim.VNode{Mode: perm, Data: []byte(verifUnformatted)}
	f, _ := syntax.NewParser(syntax.KeepComments(true)).Parse(readerOf(verifUnformatted), "")
	var want bytesBuffer
	syntax.NewPrinter().Print(&want, f)
	nOps := verifParam("ops")
	zzverifshim.VOps = 0
	zzverifshim.VFailAt = 1 + verifChoice("failAt", nOps)
	zzverifshim.VCrashAt = 0
	if verifParam("crash") != 0 {
		zzverifshim.VCrashAt = 1 + verifChoice("crashAt", nOps+1)
	}
	var err error
	completed := verifNoPanic(func() { err = formatPath("/d/f.sh", false) })
	if !completed {
		verifAssert(verifPanicMsg() == zzverifshim.VCrashMsg, "shfmt -w panicked")
	}
	node := vfs["/d/f.sh"]
	verifAssert(node != nil, "the file vanished")
	if node == nil {
		return
	}
	data := string(node.Data)
	verifAssert(data == verifUnformatted || data == want.String(), "after a failed write the file holds neither its old nor its new content")
	verifAssert(node.Mode&fs.ModeType == 0 && node.Mode.Perm() == perm, "file type or permission bits changed")
	if completed && err == nil {
		verifAssert(data == want.String(), "a run that reports success did not write the formatted content")
	}
	if completed && err != nil {
		verifReach("failed-cleanly")
		verifObserve("err", err.Error())
	}
	verifReach("end")
}

type bytesBuffer = bytesBuf

func readerOf(s string) *stringsReader { return newStringsReader(s) }
