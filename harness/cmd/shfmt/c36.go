package main

import (
	"bytes"
	"io/fs"

	"mvdan.cc/sh/v3/internal/zzverifshim"
	"mvdan.cc/sh/v3/syntax"
)

var verifC36Prefixes = [...]string{"", "echo  hi\n", "echo hi\n", "if a;then b;fi\n", "a(){ b; }\n# c\n"}

// Verif_c36_modes: -l, -d, -w and stdin agree about which files differ and
// what their formatted content is.
func Verif_c36_modes() {
	verifShfmtReset()
	n := verifParam("n")
	tail := verifBytes("src", n)
	for _, b := range tail {
		verifAssume(verifInSet(b, "ab \n;#'\"$(){}|&<>\\=\t"))
	}
	src := append([]byte(verifC36Prefixes[verifChoice("prefix", len(verifC36Prefixes))]), tail...)
	simplify.val = verifBool("simplify")
	ind := verifChoice("indent", 3)
	printer = syntax.NewPrinter(syntax.Indent(uint(ind*2)), syntax.Minify(verifBool("minify")))
	mkfs := func() {
		zzverifshim.VFS["/d"] = &zzverifshim.VNode{Dir: true, Mode: fs.ModeDir | 0o755, Entries: []string{"f.sh"}}
		zzverifshim.VFS["/d/f.sh"] = &zzverifshim.VNode{Mode: 0o644, Data: append([]byte(nil), src...)}
		zzverifshim.VStdoutNode.Data = nil
	}
	// the formatted content, computed apart from the command's own plumbing
	f, perr := syntax.NewParser(syntax.KeepComments(true), syntax.Variant(syntax.LangBash)).Parse(bytes.NewReader(src), "/d/f.sh")
	var res []byte
	if perr == nil {
		if simplify.val {
			syntax.Simplify(f)
		}
		var b bytes.Buffer
		printer.Print(&b, f)
		res = append([]byte(nil), b.Bytes()...)
	}
	differs := perr == nil && !bytes.Equal(res, src)
	file := func() []byte { return zzverifshim.VFS["/d/f.sh"].Data }
	out := func() string { return string(zzverifshim.VStdoutNode.Data) }

	mode := verifChoice("mode", 7)
	mkfs()
	switch mode {
	case 1, 5, 6:
		list.val = "true"
	case 2:
		list.val = "0"
	}
	write.val = mode == 4 || mode == 5
	diff.val = mode == 3 || mode == 6
	err := formatPath("/d/f.sh", false)
	if perr != nil {
		verifAssert(err != nil && err != errFormattingDiffers, "a file that does not parse must be an error")
		verifAssert(bytes.Equal(file(), src), "a file that does not parse was modified")
		verifReach("parse-error")
		verifReach("end")
		return
	}
	switch mode {
	case 0:
		verifAssert(err == nil && out() == string(res), "plain mode must print the formatted file")
	case 1:
		verifAssert((out() == "/d/f.sh\n") == differs && (out() == "") == !differs, "-l must list exactly the files that differ")
		verifAssert((err == errFormattingDiffers) == differs && (err == nil) == !differs, "-l must fail exactly when it lists a file")
	case 2:
		verifAssert((out() == "/d/f.sh\x00") == differs && (out() == "") == !differs, "-l=0 must list exactly the files that differ")
	case 3:
		verifAssert((out() != "") == differs, "-d must print a diff exactly for files that differ")
		verifAssert((err == errFormattingDiffers) == differs && (err == nil) == !differs, "-d must fail exactly when a file differs")
	case 4:
		verifAssert(err == nil && out() == "" && bytes.Equal(file(), res), "-w must write the formatted content and print nothing")
	case 5:
		verifAssert(err == nil && (out() == "/d/f.sh\n") == differs && bytes.Equal(file(), res), "-l -w must list and write")
	case 6:
		verifAssert((err == errFormattingDiffers) == differs, "-l -d must fail exactly when a file differs")
	}
	if mode != 4 && mode != 5 {
		verifAssert(bytes.Equal(file(), src), "a mode without -w modified the file")
	}
	// after -w, -l lists nothing (needs idempotent formatting, C02)
	if mode == 4 || mode == 5 {
		zzverifshim.VStdoutNode.Data = nil
		list.val, write.val, diff.val = "true", false, false
		err2 := formatPath("/d/f.sh", false)
		if verifKnown("C36-needs-idempotence", false) {
			return
		}
		verifAssert(err2 == nil && out() == "", "-l lists a file right after -w")
	}
	// formatting through stdin with the same language gives the same bytes
	zzverifshim.VStdoutNode.Data = nil
	zzverifshim.VStdinNode.Data = append([]byte(nil), src...)
	list.val, write.val, diff.val = "false", false, false
	errS := formatStdin("/d/f.sh")
	verifAssert(errS == nil && out() == string(res), "formatting through stdin differs from formatting the file")
	if differs {
		verifReach("differs")
	}
	verifReach("end")
}

var verifEditorConfigs = [...]string{
	"[*.sh]\nsimplify = true\n",
	"[*.sh]\nminify = true\n",
	"[*.sh]\nindent_style = space\nindent_size = 2\n",
	"[*.sh]\nbinary_next_line = true\nswitch_case_indent = true\n",
	"[*.sh]\nspace_redirects = true\nfunction_next_line = true\nkeep_padding = true\n",
	"[*.sh]\nshell_variant = posix\n",
}

var verifSetFiles = [...]string{
	"echo $(($x))\n", "if a; then\n\tb\nfi\n", "a() {\n\tb >c\n}\n", "a &&\n\tb\ncase x in\ny) z ;;\nesac\n", "echo  hi\n", "[[ a ]]\n",
}

// Verif_c36_sets: what shfmt reports for a file does not depend on which
// other files were formatted before it in the same run (EditorConfig mode:
// the first file lies in a directory with an .editorconfig section, the
// second does not).
func Verif_c36_sets() {
	ec := verifEditorConfigs[verifChoice("editorconfig", len(verifEditorConfigs))]
	first := verifSetFiles[verifChoice("first", len(verifSetFiles))]
	second := verifSetFiles[verifChoice("second", len(verifSetFiles))]
	mode := verifChoice("mode", 3) // plain, -l, -d
	run := func(withFirst bool) (string, bool) {
		verifShfmtReset()
		useEditorConfig = true
		ecQuery = verifNewQuery()
		switch mode {
		case 1:
			list.val = "true"
		case 2:
			diff.val = true
		}
		zzverifshim.VFS["/d"] = &zzverifshim.VNode{Dir: true, Mode: fs.ModeDir | 0o755, Entries: []string{"a", "b"}}
		zzverifshim.VFS["/d/a"] = &zzverifshim.VNode{Dir: true, Mode: fs.ModeDir | 0o755, Entries: []string{".editorconfig", "f.sh"}}
		zzverifshim.VFS["/d/b"] = &zzverifshim.VNode{Dir: true, Mode: fs.ModeDir | 0o755, Entries: []string{"g.sh"}}
		zzverifshim.VFS["/d/a/.editorconfig"] = &zzverifshim.VNode{Mode: 0o644, Data: []byte(ec)}
		zzverifshim.VFS["/d/a/f.sh"] = &zzverifshim.VNode{Mode: 0o644, Data: []byte(first)}
		zzverifshim.VFS["/d/b/g.sh"] = &zzverifshim.VNode{Mode: 0o644, Data: []byte(second)}
		if withFirst {
			formatPath("/d/a/f.sh", false)
		}
		zzverifshim.VStdoutNode.Data = nil
		err := formatPath("/d/b/g.sh", false)
		return string(zzverifshim.VStdoutNode.Data), err == nil
	}
	outAlone, okAlone := run(false)
	outAfter, okAfter := run(true)
	verifAssert(okAlone == okAfter, "the exit status for a file depends on the files formatted before it")
	verifAssert(outAlone == outAfter, "the output for a file depends on the files formatted before it")
	verifReach("end")
}
