package expand

// ---- reference for bash's read builtin (read.def + get_word_from_string) ----

type refCh struct {
	c   byte
	esc bool // escaped by a backslash: never a delimiter
}

func refReadChars(line string, raw bool) []refCh {
	var out []refCh
	for i := 0; i < len(line); i++ {
		if !raw && line[i] == '\\' {
			if i+1 < len(line) {
				i++
				out = append(out, refCh{line[i], true})
			}
			continue
		}
		out = append(out, refCh{line[i], false})
	}
	return out
}

func refSep(ch refCh, ifs string) bool   { return !ch.esc && refIsIFS(ch.c, ifs) }
func refWsSep(ch refCh, ifs string) bool { return refSep(ch, ifs) && refIsWs(ch.c) }

// refGetWord mirrors get_word_from_string: returns the next word and the new position.
func refGetWord(s []refCh, pos int, ifs string) (string, int, bool) {
	for pos < len(s) && refWsSep(s[pos], ifs) {
		pos++
	}
	if pos >= len(s) {
		return "", pos, false
	}
	var w []byte
	for pos < len(s) && !refSep(s[pos], ifs) {
		w = append(w, s[pos].c)
		pos++
	}
	if pos < len(s) {
		whitesep := refIsWs(s[pos].c)
		pos++ // the separator
		for pos < len(s) && refWsSep(s[pos], ifs) {
			pos++
		}
		if pos < len(s) && whitesep && refSep(s[pos], ifs) && !refIsWs(s[pos].c) {
			pos++
			for pos < len(s) && refWsSep(s[pos], ifs) {
				pos++
			}
		}
	}
	return string(w), pos, true
}

func refText(s []refCh) string {
	b := make([]byte, len(s))
	for i := range s {
		b[i] = s[i].c
	}
	return string(b)
}

// refRead returns the values assigned to n names (n >= 1), or all fields for n == -1.
func refRead(line, ifs string, n int, raw bool) []string {
	s := refReadChars(line, raw)
	pos := 0
	for pos < len(s) && refWsSep(s[pos], ifs) {
		pos++
	}
	if n == -1 {
		var out []string
		for pos < len(s) {
			w, np, ok := refGetWord(s, pos, ifs)
			if !ok {
				break
			}
			out = append(out, w)
			pos = np
		}
		return out
	}
	out := make([]string, n)
	for v := 0; v < n-1; v++ {
		w, np, ok := refGetWord(s, pos, ifs)
		if !ok {
			return out
		}
		out[v] = w
		pos = np
	}
	if pos < len(s) {
		t1 := pos
		w, np, ok := refGetWord(s, pos, ifs)
		if ok && np >= len(s) {
			out[n-1] = w
		} else {
			// strip_trailing_ifs_whitespace also strips escaped IFS white space
			end := len(s)
			for end > t1 && refIsIFS(s[end-1].c, ifs) && refIsWs(s[end-1].c) {
				end--
			}
			out[n-1] = refText(s[t1:end])
		}
	}
	return out
}

// ---- subject side ----

// Verif_c23_readfields: ReadFields assigns what bash's read assigns.
func Verif_c23_readfields() {
	nl := verifParam("nl")
	n := verifParam("names") // -1 = read -a
	raw := verifBool("raw")
	line := verifString("line", nl)
	for i := 0; i < len(line); i++ {
		verifAssume(verifInSet(line[i], "ab :\\"))
	}
	// a line ending in a lone backslash is a continuation, handled before ReadFields
	if !raw {
		nb := 0
		for k := len(line); k > 0 && line[k-1] == '\\'; k-- {
			nb++
		}
		verifAssume(nb%2 == 0)
	}
	ifs := " \t\n"
	ifsSet := false
	if nifs := verifParam("nifs"); nifs >= 0 {
		ifsSet = true
		ifs = verifString("ifs", nifs)
		for i := 0; i < len(ifs); i++ {
			verifAssume(verifInSet(ifs[i], " :a"))
		}
	}
	if !raw && nl >= 4 {
		// bash itself leaks an internal escape byte for a line that starts and
		// ends with an escaped IFS white space; outside the claim
		verifAssume(!(line[0] == '\\' && refIsIFS(line[1], ifs) && refIsWs(line[1]) &&
			line[nl-2] == '\\' && refIsIFS(line[nl-1], ifs) && refIsWs(line[nl-1])))
	}
	env := &verifMapEnv{names: []string{"IFS"}, values: []string{ifs}, set: []bool{ifsSet}}
	got := ReadFields(&Config{Env: env}, line, n, raw)
	want := refRead(line, ifs, n, raw)
	if n >= 1 {
		verifAssert(len(got) <= n, "ReadFields returned more fields than names")
		for len(got) < n {
			got = append(got, "") // the builtin assigns empty strings to the remaining names
		}
	}
	same := len(got) == len(want)
	if same {
		for i := range got {
			if got[i] != want[i] {
				same = false
			}
		}
	}
	if verifKnown("C23-read-nonws-separators", !same && verifReadDeviates(line, ifs, raw)) {
		return
	}
	verifAssert(len(got) == len(want), "read: number of values differs from bash")
	if len(got) == len(want) {
		for i := range got {
			verifAssert(got[i] == want[i], "read: value differs from bash")
		}
	}
	verifReach("end")
}

// verifReadDeviates: the line contains an unescaped non-whitespace IFS
// character (the region of known finding C23-read-nonws-separators).
func verifReadDeviates(line, ifs string, raw bool) bool {
	for _, ch := range refReadChars(line, raw) {
		if refSep(ch, ifs) && !refIsWs(ch.c) {
			return true
		}
	}
	return false
}
