package expand

import (
	"strings"

	"mvdan.cc/sh/v3/syntax"
)

// Verif_c04_word: the "..." -> '...' rewrite keeps the word's value.
func Verif_c04_word() {
	n := verifParam("n")
	v := verifString("v", n)
	if verifParam("alpha") == 1 {
		for i := 0; i < len(v); i++ {
			verifAssume(verifInSet(v[i], "ab\\$\"'`!\n 1{}*"))
		}
	}
	src := `"` + v + `"`
	if verifBool("dollar") {
		src = "$" + src
	}
	p := func() *syntax.Word {
		f, err := syntax.NewParser().Parse(strings.NewReader("c "+src), "")
		verifAssume(err == nil)
		verifAssume(len(f.Stmts) == 1)
		call, ok := f.Stmts[0].Cmd.(*syntax.CallExpr)
		verifAssume(ok && len(call.Args) == 2 && len(f.Stmts[0].Redirs) == 0)
		return call.Args[1]
	}
	w1, w2 := p(), p()
	changed := syntax.Simplify(w2)
	verifAssert(changed == !verifTreeEq(w1, w2, 0), "Simplify's result does not say whether it changed the word")
	env := &verifMapEnv{names: []string{"a", "b"}, values: []string{"A", "B"}, set: []bool{true, true}}
	s1, e1 := Literal(&Config{Env: env}, w1)
	s2, e2 := Literal(&Config{Env: env}, w2)
	verifAssert((e1 == nil) == (e2 == nil), "Simplify changed whether the word expands")
	if e1 == nil && e2 == nil {
		verifAssert(s1 == s2, "Simplify changed the value of a quoted word")
	}
	if changed {
		verifReach("changed")
	}
	verifReach("end")
}
