package expand

import (
	"strconv"
	"strings"

	"mvdan.cc/sh/v3/syntax"
)

// ---- reference brace expansion, after bash's braces.c ----

// refEarlyClose is the deviation switch of known finding C16-early-close:
// when set, a "}" at nesting level 0 always ends the search for the close
// brace (the group is then not an expansion if it had no comma or ".."),
// whereas bash keeps scanning for a later "}" that does close a valid group.
var refEarlyClose bool

func refGobble(text string, i int, satisfy byte) (int, bool) {
	level := 0
	commas := 1
	if satisfy == '}' {
		commas = 0
	}
	for i < len(text) {
		c := text[i]
		if c == '\\' {
			i += 2
			continue
		}
		if c == satisfy && level == 0 && commas > 0 {
			if c == '{' && (i == 0) && i+1 < len(text) && text[i+1] == '}' {
				// an open brace at the start immediately followed by a close brace is ignored
				i++
				continue
			}
			return i, true
		}
		if refEarlyClose && satisfy == '}' && c == '}' && level == 0 {
			return i, false
		}
		if c == '{' {
			level++
		} else if c == '}' && level > 0 {
			level--
		} else if satisfy == '}' && c == ',' && level == 0 {
			commas++
		} else if satisfy == '}' && c == '.' && i+1 < len(text) && text[i+1] == '.' && level == 0 && !(i+2 < len(text) && text[i+2] == '}') {
			commas++
		}
		i++
	}
	return i, false
}

func refLegalNumber(s string) (int64, bool) {
	if s == "" {
		return 0, false
	}
	t := s
	if t[0] == '-' || t[0] == '+' {
		t = t[1:]
	}
	if t == "" {
		return 0, false
	}
	for i := 0; i < len(t); i++ {
		if t[i] < '0' || t[i] > '9' {
			return 0, false
		}
	}
	n, err := strconv.ParseInt(s, 10, 64)
	if err != nil {
		return 0, false
	}
	return n, true
}

func refIsAlpha(b byte) bool { return b >= 'a' && b <= 'z' || b >= 'A' && b <= 'Z' }

func refLeadingZero(s string) bool {
	if len(s) > 0 && (s[0] == '-' || s[0] == '+') {
		s = s[1:]
	}
	return len(s) > 1 && s[0] == '0'
}

func refSeqterm(amble string) ([]string, bool) {
	k := strings.Index(amble, "..")
	if k < 0 {
		return nil, false
	}
	lhs := amble[:k]
	rest := amble[k+2:]
	rhs, incrS, hasIncr := rest, "", false
	if k2 := strings.Index(rest, ".."); k2 >= 0 {
		rhs, incrS, hasIncr = rest[:k2], rest[k2+2:], true
	}
	incr := int64(1)
	if hasIncr {
		n, ok := refLegalNumber(incrS)
		if !ok {
			return nil, false
		}
		if n < 0 {
			n = -n
		}
		if n != 0 {
			incr = n
		}
	}
	var out []string
	if len(lhs) == 1 && len(rhs) == 1 && refIsAlpha(lhs[0]) && refIsAlpha(rhs[0]) {
		a, b := int64(lhs[0]), int64(rhs[0])
		if a <= b {
			for n := a; n <= b; n += incr {
				out = append(out, string(rune(n)))
			}
		} else {
			for n := a; n >= b; n -= incr {
				out = append(out, string(rune(n)))
			}
		}
		return out, true
	}
	a, ok1 := refLegalNumber(lhs)
	b, ok2 := refLegalNumber(rhs)
	if !ok1 || !ok2 {
		return nil, false
	}
	width := 0
	if refLeadingZero(lhs) || refLeadingZero(rhs) {
		width = len(lhs)
		if len(rhs) > width {
			width = len(rhs)
		}
	}
	format := func(n int64) string {
		s := strconv.FormatInt(n, 10)
		if width > 0 {
			neg := false
			if s[0] == '-' {
				neg, s = true, s[1:]
			}
			for len(s)+btoi(neg) < width {
				s = "0" + s
			}
			if neg {
				s = "-" + s
			}
		}
		return s
	}
	if a <= b {
		for n := a; n <= b; n += incr {
			out = append(out, format(n))
			if n > b-incr { // no overflow
				break
			}
		}
	} else {
		for n := a; n >= b; n -= incr {
			out = append(out, format(n))
			if n < b+incr {
				break
			}
		}
	}
	return out, true
}

func btoi(b bool) int {
	if b {
		return 1
	}
	return 0
}

func refExpandAmble(amble string) []string {
	var out []string
	start := 0
	for {
		j, ok := refGobble(amble, start, ',')
		piece := amble[start:]
		if ok {
			piece = amble[start:j]
		}
		out = append(out, refBrace(piece)...)
		if !ok {
			break
		}
		start = j + 1
	}
	return out
}

func refBrace(text string) []string {
	i := 0
	idx, j := 0, 0
	for {
		var ok bool
		idx, ok = refGobble(text, i, '{')
		if !ok {
			return []string{text}
		}
		var ok2 bool
		j, ok2 = refGobble(text, idx+1, '}')
		if ok2 {
			break
		}
		i = idx + 1
	}
	pre, amble, post := text[:idx], text[idx+1:j], text[j+1:]
	hasComma := false
	for k := 0; k < len(amble); k++ {
		if amble[k] == '\\' {
			k++
			continue
		}
		if amble[k] == ',' {
			hasComma = true
			break
		}
	}
	var tack []string
	if !hasComma {
		seq, ok := refSeqterm(amble)
		switch {
		case ok:
			tack = seq
		case post != "":
			tack = []string{"{" + amble + "}"}
		default:
			return []string{text}
		}
	} else {
		tack = refExpandAmble(amble)
	}
	var res []string
	for _, t := range tack {
		res = append(res, pre+t)
	}
	if post != "" {
		pp := refBrace(post)
		var prod []string
		for _, r := range res {
			for _, p := range pp {
				prod = append(prod, r+p)
			}
		}
		res = prod
	}
	return res
}

// ---- subject side ----

func verifRenderWord(w *syntax.Word) string {
	var sb strings.Builder
	for _, p := range w.Parts {
		switch p := p.(type) {
		case *syntax.Lit:
			sb.WriteString(p.Value)
		case *syntax.BraceExp:
			sb.WriteByte('{')
			for i, e := range p.Elems {
				if i > 0 {
					if p.Sequence {
						sb.WriteString("..")
					} else {
						sb.WriteByte(',')
					}
				}
				sb.WriteString(verifRenderWord(e))
			}
			sb.WriteByte('}')
		}
	}
	return sb.String()
}

func verifHasBraceExp(w *syntax.Word) bool {
	for _, p := range w.Parts {
		if _, ok := p.(*syntax.BraceExp); ok {
			return true
		}
	}
	return false
}

func verifBraceWord(n int) string {
	if n < 0 {
		// a sequence expression {A..B} or {A..B..S}: one-character ends with an
		// optional minus sign, step of one digit with an optional sign
		signs := [...]string{"", "-", "+"}
		end := func(id string) string {
			p := verifString(id, 1)
			verifAssume(verifInSet(p[0], "0139az"))
			return signs[verifChoice(id+"sign", 2)] + p
		}
		w := "x{" + end("a") + ".." + end("b")
		if verifBool("step") {
			p := verifString("s", 1)
			verifAssume(verifInSet(p[0], "0123"))
			w += ".." + signs[verifChoice("ssign", 3)] + p
		}
		return w + "}y"
	}
	s := verifString("w", n)
	alpha := "{},.\\ab10-"
	if verifParam("alpha") == 1 {
		alpha = "{},ab"
	}
	for i := 0; i < len(s); i++ {
		verifAssume(verifInSet(s[i], alpha))
	}
	return s
}

// Verif_c16_split: SplitBraces keeps the printed form and reports what it found.
func Verif_c16_split() {
	s := verifBraceWord(verifParam("n"))
	w := &syntax.Word{Parts: []syntax.WordPart{&syntax.Lit{Value: s}}}
	found := syntax.SplitBraces(w)
	verifAssert(verifRenderWord(w) == s, "SplitBraces changed the word's printed form")
	verifAssert(found == verifHasBraceExp(w), "SplitBraces' result does not say whether a brace expansion was found")
	verifReach("end")
}

// Verif_c16_expand: the words from brace expansion are bash's.
func Verif_c16_expand() {
	s := verifBraceWord(verifParam("n"))
	// a trailing lone backslash is outside the claim (meaning defined by what follows)
	nb := 0
	for k := len(s); k > 0 && s[k-1] == '\\'; k-- {
		nb++
	}
	verifAssume(nb%2 == 0)
	w := &syntax.Word{Parts: []syntax.WordPart{&syntax.Lit{Value: s}}}
	var got []string
	if syntax.SplitBraces(w) {
		for _, ew := range Braces(w) {
			got = append(got, verifRenderWord(ew))
		}
	} else {
		got = []string{s}
	}
	refEarlyClose = false
	want := refBrace(s)
	refEarlyClose = true
	wantDev := refBrace(s)
	refEarlyClose = false
	same := len(want) == len(wantDev)
	if same {
		for i := range want {
			if want[i] != wantDev[i] {
				same = false
			}
		}
	}
	// listed known finding: a group holding ".." and a nested group but no
	// comma of its own: bash gives up on the sequence and drops the braces
	depth, maxDepth := 0, 0
	for i := 0; i < len(s); i++ {
		switch s[i] {
		case '{':
			depth++
			if depth > maxDepth {
				maxDepth = depth
			}
		case '}':
			if depth > 0 {
				depth--
			}
		}
	}
	if verifKnown("C16-failed-sequence-with-nested-group", maxDepth >= 2 && strings.Contains(s, "..")) {
		verifReach("end")
		return
	}
	if verifKnown("C16-early-close", !same) {
		want = wantDev // the listed deviation: the implementation must still equal this fully specified model
	}
	verifAssert(len(got) == len(want), "brace expansion yields a different number of words than bash")
	if len(got) == len(want) {
		for i := range got {
			verifAssert(got[i] == want[i], "brace expansion yields a different word than bash")
		}
	}
	verifReach("end")
}

var verifSeqEnds = [...]string{"9223372036854775806", "9223372036854775807", "-9223372036854775808", "-9223372036854775807", "0", "-1", "16383", "16384", "9223372036854775800", "-9223372036854775800"}

// Verif_c16_limits: sequences near the integer limits and the 16384-element limit.
func Verif_c16_limits() {
	from := verifSeqEnds[verifChoice("from", len(verifSeqEnds))]
	to := verifSeqEnds[verifChoice("to", len(verifSeqEnds))]
	s := "{" + from + ".." + to + "}"
	if verifBool("withIncr") {
		incrs := [...]string{"1", "-1", "0", "7", "9223372036854775807", "-9223372036854775808", "4611686018427387904"}
		s = "{" + from + ".." + to + ".." + incrs[verifChoice("incr", len(incrs))] + "}"
	}
	w := &syntax.Word{Parts: []syntax.WordPart{&syntax.Lit{Value: s}}}
	verifAssume(syntax.SplitBraces(w))
	var got []string
	var gotErr error
	for ew, err := range BracesSeq(nil, w) {
		if err != nil {
			gotErr = err
			break
		}
		got = append(got, verifRenderWord(ew))
	}
	// ideal count, computed without overflow
	want, ok := refSeqCount(s)
	verifAssume(ok)
	if want > 16384 {
		verifAssert(gotErr != nil, "a sequence of more than 16384 elements must be an error")
	} else {
		verifAssert(gotErr == nil, "a sequence within the 16384-element limit reported an error")
		verifAssert(len(got) == want, "sequence has the wrong number of elements")
		ref := refBrace(s)
		if len(ref) == len(got) {
			for i := range got {
				verifAssert(got[i] == ref[i], "sequence element differs from bash")
			}
		}
	}
	verifReach("end")
}

// refSeqCount: number of elements of {a..b[..i]}, saturating at 1<<20.
func refSeqCount(s string) (int, bool) {
	body := s[1 : len(s)-1]
	parts := strings.Split(body, "..")
	a, ok1 := refLegalNumber(parts[0])
	b, ok2 := refLegalNumber(parts[1])
	if !ok1 || !ok2 {
		return 0, false
	}
	incr := uint64(1)
	if len(parts) == 3 {
		n, ok := refLegalNumber(parts[2])
		if !ok {
			return 0, false
		}
		if n != 0 {
			if n < 0 {
				incr = uint64(-n) // wraps correctly for MinInt64
			} else {
				incr = uint64(n)
			}
		}
	}
	var span uint64
	if a <= b {
		span = uint64(b) - uint64(a)
	} else {
		span = uint64(a) - uint64(b)
	}
	if span >= 1<<63 {
		return 0, false // bash refuses spans that overflow intmax_t; outside the claim
	}
	cnt := span/incr + 1
	if cnt > 1<<20 || cnt == 0 {
		return 1 << 20, true
	}
	return int(cnt), true
}
