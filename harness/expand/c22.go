package expand

import (
	"strings"

	"mvdan.cc/sh/v3/syntax"
)

// ---- reference field splitting (POSIX 2.6.5 as bash implements it), byte-wise ----

type refSeg struct {
	text string
	kind int // 0 unquoted expansion result, 1 quoted (any quotes), 2 unquoted literal
}

type refSplitOpts struct {
	// deviation switches of listed known findings
	devNoEmptyFromNonWs  bool // a non-whitespace IFS character only ends a field, it never creates an empty one
	devQuotedNullIgnored bool // an empty quoted string only yields a field when the whole word yields none
}

func refIsIFS(c byte, ifs string) bool { return strings.IndexByte(ifs, c) >= 0 }
func refIsWs(c byte) bool              { return c == ' ' || c == '\t' || c == '\n' }

func refSplit(segs []refSeg, ifs string, o refSplitOpts) []string {
	var fields []string
	cur := []byte{}
	has := false     // the current field exists (even if empty)
	hasText := false // the current field has non-quoted-null content (what the implementation tracks)
	anyQuoted := false
	emit := func() {
		fields = append(fields, string(cur))
		cur = cur[:0]
		has, hasText = false, false
	}
	// adjacent unquoted expansions are split as one piece of text
	var merged []refSeg
	for _, sg := range segs {
		if n := len(merged); n > 0 && sg.kind == 0 && merged[n-1].kind == 0 {
			merged[n-1].text += sg.text
			continue
		}
		merged = append(merged, sg)
	}
	for _, sg := range merged {
		switch sg.kind {
		case 1:
			anyQuoted = true
			cur = append(cur, sg.text...)
			if o.devQuotedNullIgnored {
				if len(sg.text) > 0 {
					has, hasText = true, true
				}
			} else {
				has = true
				if len(sg.text) > 0 {
					hasText = true
				}
			}
		case 2:
			cur = append(cur, sg.text...)
			if len(sg.text) > 0 {
				has, hasText = true, true
			}
		case 0:
			t := sg.text
			for i := 0; i < len(t); {
				c := t[i]
				if !refIsIFS(c, ifs) {
					cur = append(cur, c)
					has, hasText = true, true
					i++
					continue
				}
				// a delimiter: IFS white space, optionally around one non-white-space IFS character
				j := i
				for j < len(t) && refIsIFS(t[j], ifs) && refIsWs(t[j]) {
					j++
				}
				if j < len(t) && refIsIFS(t[j], ifs) && !refIsWs(t[j]) {
					j++
					for j < len(t) && refIsIFS(t[j], ifs) && refIsWs(t[j]) {
						j++
					}
					// delimited by a non-white-space character: the field exists even if empty
					if o.devNoEmptyFromNonWs {
						if has {
							emit()
						}
					} else {
						emit()
					}
				} else if has {
					emit()
				}
				i = j
			}
		}
	}
	if has {
		emit()
	}
	if o.devQuotedNullIgnored && len(fields) == 0 && anyQuoted {
		fields = append(fields, "")
	}
	_ = hasText
	return fields
}

// ---- subject side ----

type verifMapEnv struct {
	names  []string
	values []string
	set    []bool
}

func (e *verifMapEnv) Get(name string) Variable {
	for i, n := range e.names {
		if n == name && e.set[i] {
			return Variable{Set: true, Kind: String, Str: e.values[i]}
		}
	}
	return Variable{}
}

func (e *verifMapEnv) Each(f func(string, Variable) bool) {
	for i, n := range e.names {
		if e.set[i] && !f(n, Variable{Set: true, Kind: String, Str: e.values[i]}) {
			return
		}
	}
}

var verifFieldTemplates = [...]string{`$x`, `a$x`, `$x"b"`, `$x""`, `""$x`, `"$x"`, `$x'q'$x`, `$x$y`}

func verifTemplateSegs(k int, x, y string) []refSeg {
	switch k {
	case 0:
		return []refSeg{{x, 0}}
	case 1:
		return []refSeg{{"a", 2}, {x, 0}}
	case 2:
		return []refSeg{{x, 0}, {"b", 1}}
	case 3:
		return []refSeg{{x, 0}, {"", 1}}
	case 4:
		return []refSeg{{"", 1}, {x, 0}}
	case 5:
		return []refSeg{{x, 1}}
	case 6:
		return []refSeg{{x, 0}, {"q", 1}, {x, 0}}
	default:
		return []refSeg{{x, 0}, {y, 0}}
	}
}

// Verif_c22_fields: expand.Fields splits like bash.
func Verif_c22_fields() {
	nx := verifParam("nx")
	tmpl := verifParam("tmpl")
	x := verifString("x", nx)
	for i := 0; i < len(x); i++ {
		verifAssume(verifInSet(x[i], " :ab\n"))
	}
	y := ""
	if tmpl == 7 {
		y = verifString("y", verifParam("ny"))
		for i := 0; i < len(y); i++ {
			verifAssume(verifInSet(y[i], " :ab"))
		}
	}
	ifs := " \t\n"
	ifsSet := false
	if nifs := verifParam("nifs"); nifs == -2 {
		// a fixed mixed IFS (whitespace and non-whitespace), for longer values
		ifsSet, ifs = true, " :"
	} else if nifs >= 0 {
		ifsSet = true
		ifs = verifString("ifs", nifs)
		for i := 0; i < len(ifs); i++ {
			verifAssume(verifInSet(ifs[i], " \n:a"))
		}
	}
	env := &verifMapEnv{names: []string{"IFS", "x", "y"}, values: []string{ifs, x, y}, set: []bool{ifsSet, true, true}}
	f, err := syntax.NewParser().Parse(strings.NewReader("c "+verifFieldTemplates[tmpl]), "")
	verifAssume(err == nil)
	words := f.Stmts[0].Cmd.(*syntax.CallExpr).Args[1:]
	got, ferr := Fields(&Config{Env: env}, words...)
	verifAssert(ferr == nil, "Fields failed")
	segs := verifTemplateSegs(tmpl, x, y)
	want := refSplit(segs, ifs, refSplitOpts{})
	same := func(a, b []string) bool {
		if len(a) != len(b) {
			return false
		}
		for i := range a {
			if a[i] != b[i] {
				return false
			}
		}
		return true
	}
	if !same(got, want) {
		// the listed deviations, each a fully specified model
		d1 := refSplit(segs, ifs, refSplitOpts{devNoEmptyFromNonWs: true})
		if verifKnown("C22-no-empty-field-from-nonws-ifs", same(got, d1)) {
			want = d1
		}
		d2 := refSplit(segs, ifs, refSplitOpts{devQuotedNullIgnored: true})
		if verifKnown("C22-quoted-null-after-split", same(got, d2)) {
			want = d2
		}
		d3 := refSplit(segs, ifs, refSplitOpts{devNoEmptyFromNonWs: true, devQuotedNullIgnored: true})
		if verifKnown("C22-no-empty-field-from-nonws-ifs", same(got, d3)) && verifKnown("C22-quoted-null-after-split", true) {
			want = d3
		}
	}
	verifAssert(len(got) == len(want), "number of fields differs from bash")
	if len(got) == len(want) {
		for i := range got {
			verifAssert(got[i] == want[i], "field differs from bash")
		}
	}
	verifReach("end")
}

// ---- positional parameters: $@ $* "$@" "$*" with text around them ----

type verifPosEnv struct {
	ifs    string
	ifsSet bool
	params []string
}

func (e *verifPosEnv) Get(name string) Variable {
	switch name {
	case "IFS":
		if e.ifsSet {
			return Variable{Set: true, Kind: String, Str: e.ifs}
		}
	case "@", "*":
		if e.params == nil {
			return Variable{Set: true, Kind: Indexed, List: []string{}} // as the interpreter does
		}
		return Variable{Set: true, Kind: Indexed, List: e.params}
	case "#":
		return Variable{Set: true, Kind: String, Str: string(rune('0' + len(e.params)))}
	case "1", "2":
		if k := int(name[0] - '1'); k < len(e.params) {
			return Variable{Set: true, Kind: String, Str: e.params[k]}
		}
	}
	return Variable{}
}
func (e *verifPosEnv) Each(f func(string, Variable) bool) {}

var verifPosTemplates = [...]string{`$@`, `$*`, `"$@"`, `"$*"`, `"a$@b"`, `x"$@"y`, `"$@"$1`, `"a$*b"`, `a$@`}

// refPositional: the fields of template k for the given parameters; IFS is
// set and not empty.
func refPositional(k int, params []string, ifs string) []string {
	sep := ifs[:1]
	joined := strings.Join(params, sep)
	// "$@" with text p before and s after it inside the same quotes, then an
	// optional unquoted tail that is split and attached to the last field
	at := func(p, s string) []string {
		if len(params) == 0 {
			if p+s == "" {
				return nil
			}
			return []string{p + s}
		}
		out := append([]string(nil), params...)
		out[0] = p + out[0]
		out[len(out)-1] += s
		return out
	}
	switch k {
	case 0, 1:
		return refSplit([]refSeg{{joined, 0}}, ifs, refSplitOpts{})
	case 2:
		return at("", "")
	case 3:
		return []string{joined}
	case 4:
		return at("a", "b")
	case 5:
		out := at("", "")
		if len(out) == 0 {
			return []string{"xy"}
		}
		out[0] = "x" + out[0]
		out[len(out)-1] += "y"
		return out
	case 6:
		first := ""
		if len(params) > 0 {
			first = params[0]
		}
		if len(params) == 0 {
			return nil
		}
		// "$@" followed by unquoted $1: its first field joins the last element
		segs := []refSeg{}
		for i, p := range params {
			if i > 0 {
				segs = append(segs, refSeg{"\x00", 3})
			}
			segs = append(segs, refSeg{p, 1})
		}
		_ = segs
		tail := refSplit([]refSeg{{params[len(params)-1], 1}, {first, 0}}, ifs, refSplitOpts{})
		return append(append([]string(nil), params[:len(params)-1]...), tail...)
	case 7:
		return []string{"a" + joined + "b"}
	default:
		return refSplit([]refSeg{{"a", 2}, {joined, 0}}, ifs, refSplitOpts{})
	}
}

// Verif_c22_positional: words built from $@ and $* produce the fields of bash.
func Verif_c22_positional() {
	k := verifParam("tmpl")
	if k < 0 {
		k = verifChoice("tmpl", len(verifPosTemplates))
	}
	np := verifChoice("nparams", 3)
	var params []string
	ids := [...]string{"p1", "p2"}
	for i := 0; i < np; i++ {
		p := verifString(ids[i], verifChoice(ids[i]+"len", verifParam("np")+1))
		for j := 0; j < len(p); j++ {
			verifAssume(verifInSet(p[j], " :ab"))
		}
		params = append(params, p)
	}
	ifsChoices := [...]string{" \t\n", ":", " :", ": "}
	ifs := ifsChoices[verifChoice("ifs", len(ifsChoices))]
	// a bare $@ or $* under an IFS mixing whitespace and other characters
	// follows bash's list expansion in corner cases (empty or blank leading
	// parameters) that the reference does not model
	verifAssume(!(k <= 1 && len(ifs) == 2))
	env := &verifPosEnv{ifs: ifs, ifsSet: true, params: params}
	f, err := syntax.NewParser().Parse(strings.NewReader("c "+verifPosTemplates[k]), "")
	verifAssume(err == nil)
	words := f.Stmts[0].Cmd.(*syntax.CallExpr).Args[1:]
	got, ferr := Fields(&Config{Env: env}, words...)
	verifAssert(ferr == nil, "Fields failed")
	want := refPositional(k, params, ifs)
	verifAssert(len(got) == len(want), "positional parameters: number of fields differs from bash")
	if len(got) == len(want) {
		for i := range got {
			verifAssert(got[i] == want[i], "positional parameters: field differs from bash")
		}
	}
	verifReach("end")
}
