package expand

import (
	"strings"
	"unicode"
	"unicode/utf8"

	"mvdan.cc/sh/v3/syntax"
)

func verifLang(k int) syntax.LangVariant {
	switch k {
	case 0:
		return syntax.LangBash
	case 1:
		return syntax.LangPOSIX
	case 2:
		return syntax.LangMirBSDKorn
	case 3:
		return syntax.LangBats
	default:
		return syntax.LangZsh
	}
}

var verifReserved = [...]string{"!", "[[", "]]", "case", "coproc", "do", "done", "elif", "else", "esac", "fi", "for", "function", "if", "in", "let", "select", "then", "time", "until", "while", "{", "}"}

// Verif_c13_quote: Quote(s) parses as one literal/quoted word that expands
// back to s; Quote fails only for strings the variant cannot represent.
func Verif_c13_quote() {
	n := verifParam("n")
	langK := verifParam("lang")
	lang := verifLang(langK)
	var s string
	if n < 0 {
		// the reserved words of bash, mksh and zsh: as a command word each
		// must come back quoted
		s = verifReserved[verifChoice("word", len(verifReserved))]
	} else {
		s = verifString("s", n)
	}
	if n >= 0 && verifParam("alpha") == 1 {
		for i := 0; i < len(s); i++ {
			verifAssume(verifInSet(s[i], "ab10_ \t\n\\'\"$`{}()[]<>|&;#=+-*?!@%/:,.~^fidoen\x00\x01\x7f\xc3\xa9\xff"))
		}
	}
	q, err := syntax.Quote(s, lang)
	// reference classification of the string
	hasNul, valid, allPrint, big := false, true, true, false
	for rem := s; len(rem) > 0; {
		r, size := utf8.DecodeRuneInString(rem)
		if r == 0 {
			hasNul = true
		}
		if r == utf8.RuneError && size == 1 {
			valid = false
		} else if !unicode.IsPrint(r) {
			allPrint = false
		}
		if r > 0xFFFD {
			big = true
		}
		rem = rem[size:]
	}
	if err != nil {
		ok := hasNul || (langK == 1 && (!valid || !allPrint)) || (langK == 2 && big)
		verifAssert(ok, "Quote failed on a string the variant can represent")
		verifReach("quote-error")
		verifReach("end")
		return
	}
	verifAssert(!hasNul, "Quote accepted a string containing NUL")
	// listed known finding: "let" comes back unquoted, and a lone "let" is a
	// syntax error for this parser in every variant that knows the builtin
	if verifKnown("C13-let-unquoted", s == "let" && langK != 1) {
		verifReach("end")
		return
	}
	f, perr := syntax.NewParser(syntax.Variant(lang)).Parse(strings.NewReader(q), "")
	verifAssert(perr == nil, "quoted string does not parse")
	if perr != nil {
		return
	}
	verifAssert(len(f.Stmts) == 1, "quoted string is not exactly one statement")
	st := f.Stmts[0]
	call, isCall := st.Cmd.(*syntax.CallExpr)
	verifAssert(isCall && len(st.Redirs) == 0 && !st.Negated && !st.Background && !st.Coprocess, "quoted string is not a plain command word")
	if !isCall {
		return
	}
	verifAssert(len(call.Assigns) == 0 && len(call.Args) == 1, "quoted string is not exactly one word")
	if len(call.Args) != 1 {
		return
	}
	w := call.Args[0]
	for _, part := range w.Parts {
		switch p := part.(type) {
		case *syntax.Lit, *syntax.SglQuoted:
		case *syntax.DblQuoted:
			for _, ip := range p.Parts {
				_, isLit := ip.(*syntax.Lit)
				verifAssert(isLit, "quoted string contains an expansion inside double quotes")
			}
		default:
			verifAssert(false, "quoted string contains a non-literal word part")
		}
	}
	got, lerr := Literal(nil, w)
	verifAssert(lerr == nil, "quoted string does not expand")
	verifAssert(got == s, "quoted string expands to a different string")
	verifObserve("quoted", q)
	verifReach("end")
}
