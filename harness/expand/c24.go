package expand

import "strconv"

// ---- reference for bash's printf builtin (one pass over the format) ----

// refPrintf returns the bytes written, how many arguments were consumed and
// whether bash reports an error (status 1). stop is set by \c inside %b.
func refPrintf(format string, args []string) (out []byte, used int, bad bool, fatal bool) {
	next := func() (string, bool) {
		if used < len(args) {
			used++
			return args[used-1], true
		}
		return "", false
	}
	for i := 0; i < len(format); i++ {
		c := format[i]
		switch c {
		case '\\':
			b, n := refEscape(format[i:], 0)
			if n == 0 {
				return out, -1, true, true // \u, \U: outside the reference
			}
			out = append(out, b...)
			i += n - 1
		case '%':
			i++
			if i >= len(format) {
				return out, used, true, true // missing format character
			}
			if format[i] == '%' {
				out = append(out, '%')
				continue
			}
			var minus, plus, space, zero bool
		flags:
			for ; i < len(format); i++ {
				switch format[i] {
				case '-':
					minus = true
				case '+':
					plus = true
				case ' ':
					space = true
				case '0':
					zero = true
				case '#':
				default:
					break flags
				}
			}
			width := 0
			for i < len(format) && format[i] >= '0' && format[i] <= '9' {
				width = width*10 + int(format[i]-'0')
				i++
			}
			if i >= len(format) {
				return out, used, true, true
			}
			var body string
			numeric := false
			switch format[i] {
			case 's':
				body, _ = next()
			case 'b':
				a, _ := next()
				var eb []byte
				stop := false
				for k := 0; k < len(a); k++ {
					if a[k] == '\\' {
						if k+1 < len(a) && a[k+1] == 'c' {
							stop = true
							break
						}
						b, n := refEscape(a[k:], 1)
						if n == 0 {
							return out, -1, true, true
						}
						eb = append(eb, b...)
						k += n - 1
						continue
					}
					eb = append(eb, a[k])
				}
				body = string(eb)
				if stop {
					out = append(out, refPad(body, width, minus, false, false)...)
					return out, used, bad, true
				}
			case 'c':
				a, _ := next()
				if a == "" {
					body = "\x00"
				} else {
					body = a[:1]
				}
			case 'd', 'i', 'u', 'o', 'x':
				a, _ := next()
				v, ok := refStrtoimax(a)
				if !ok {
					bad = true
				}
				numeric = true
				switch format[i] {
				case 'd', 'i':
					body = strconv.FormatInt(v, 10)
					if v >= 0 {
						if plus {
							body = "+" + body
						} else if space {
							body = " " + body
						}
					}
				case 'u':
					body = strconv.FormatUint(uint64(v), 10)
				case 'o':
					body = strconv.FormatUint(uint64(v), 8)
				case 'x':
					body = strconv.FormatUint(uint64(v), 16)
				}
			case 'e', 'f', 'g', 'a', 'n', 'q', 'E', 'F', 'G', 'A', 'X', 'Q', '(':
				return out, -1, true, true // outside the reference
			default:
				return out, used, true, true // invalid format character
			}
			out = append(out, refPad(body, width, minus, zero && numeric, numeric)...)
		default:
			out = append(out, c)
		}
	}
	return out, used, bad, false
}

func refPad(body string, width int, minus, zero, numeric bool) string {
	if len(body) >= width {
		return body
	}
	n := width - len(body)
	if minus {
		for k := 0; k < n; k++ {
			body += " "
		}
		return body
	}
	if zero {
		sign := ""
		if len(body) > 0 && (body[0] == '-' || body[0] == '+' || body[0] == ' ') {
			sign, body = body[:1], body[1:]
		}
		for k := 0; k < n; k++ {
			body = "0" + body
		}
		return sign + body
	}
	for k := 0; k < n; k++ {
		body = " " + body
	}
	return body
}

// refStrtoimax: C strtoimax with base 0; ok=false if nothing or trailing junk.
func refStrtoimax(s string) (int64, bool) {
	i := 0
	for i < len(s) && (s[i] == ' ' || s[i] == '\t' || s[i] == '\n') {
		i++
	}
	if i >= len(s) {
		return 0, s == "" // the empty string counts as 0 without an error
	}
	neg := false
	if s[i] == '+' || s[i] == '-' {
		neg = s[i] == '-'
		i++
	}
	base := uint64(10)
	if i+1 < len(s) && s[i] == '0' && (s[i+1] == 'x' || s[i+1] == 'X') && i+2 < len(s) && refHexVal(s[i+2]) < 16 {
		base = 16
		i += 2
	} else if i < len(s) && s[i] == '0' {
		base = 8
	}
	start := i
	var n uint64
	for i < len(s) {
		d := refHexVal(s[i])
		if uint64(d) >= base {
			break
		}
		n = n*base + uint64(d)
		i++
	}
	ok := i > start && i == len(s)
	v := int64(n)
	if neg {
		v = -v
	}
	return v, ok
}

func refHexVal(c byte) int {
	switch {
	case c >= '0' && c <= '9':
		return int(c - '0')
	case c >= 'a' && c <= 'f':
		return int(c-'a') + 10
	case c >= 'A' && c <= 'F':
		return int(c-'A') + 10
	}
	return 99
}

// refEscape decodes the escape sequence at s[0]=='\\'. mode 0 is the format
// string, 1 a %b argument (\0nnn as well as \nnn; \' \" \? stay), 2 an
// echo -e argument (only \0nnn is octal). It returns the bytes and the number
// of input bytes used (0: outside the reference).
func refEscape(s string, mode int) ([]byte, int) {
	inB := mode != 0
	if len(s) < 2 {
		return []byte{'\\'}, 1
	}
	switch c := s[1]; c {
	case 'u', 'U':
		return nil, 0
	case 'a':
		return []byte{7}, 2
	case 'b':
		return []byte{8}, 2
	case 'e', 'E':
		return []byte{27}, 2
	case 'f':
		return []byte{12}, 2
	case 'n':
		return []byte{10}, 2
	case 'r':
		return []byte{13}, 2
	case 't':
		return []byte{9}, 2
	case 'v':
		return []byte{11}, 2
	case '\\':
		return []byte{'\\'}, 2
	case '\'', '"', '?':
		if inB {
			return []byte{'\\', c}, 2
		}
		return []byte{c}, 2
	case '0', '1', '2', '3', '4', '5', '6', '7':
		if mode == 2 && c != '0' {
			return []byte{'\\'}, 1
		}
		k, max := 1, 3
		if inB && c == '0' {
			k, max = 2, 3
		}
		v, n := 0, 0
		for k < len(s) && n < max && s[k] >= '0' && s[k] <= '7' {
			v = v*8 + int(s[k]-'0')
			k++
			n++
		}
		return []byte{byte(v)}, k
	case 'x':
		k, v, n := 2, 0, 0
		for k < len(s) && n < 2 && refHexVal(s[k]) < 16 {
			v = v*16 + refHexVal(s[k])
			k++
			n++
		}
		if n == 0 {
			return []byte{'\\', 'x'}, 2
		}
		return []byte{byte(v)}, k
	}
	return []byte{'\\'}, 1
}

// ---- harness ----

var verifC24ArgIDs = [...]string{"a0", "a1", "a2"}

// verifC24Deviation classifies (format, args) into the regions of the known
// findings; "" means the implementation is expected to agree with bash.
func verifC24Deviation(format string, args []string) string {
	ai := 0
	for i := 0; i < len(format); i++ {
		switch format[i] {
		case '\\':
			if i+1 < len(format) && format[i+1] != '%' {
				_, n := refEscape(format[i:], 0)
				i += n - 1
			}
		case '%':
			i++
			if i < len(format) && format[i] == '%' {
				continue
			}

			for ; i < len(format) && (format[i] == '-' || format[i] == '+' || format[i] == ' ' || format[i] == '0' || format[i] == '#'); i++ {
			}
			for ; i < len(format) && format[i] >= '0' && format[i] <= '9'; i++ {
			}
			if i >= len(format) {
				return ""
			}
			arg, have := "", ai < len(args)
			if have {
				arg = args[ai]
			}
			switch format[i] {
			case 's':
				ai++
			case 'c', 'b':
				ai++
				if format[i] == 'b' {
					if verifEscDeviation(arg, false) {
						return "C24-percent-b-escapes"
					}
				}
			case 'd', 'i', 'u', 'o', 'x':
				ai++
				if _, ok := refStrtoimax(arg); !ok {
					return "C24-invalid-number"
				}
				for k := 0; k < len(arg); k++ {
					if arg[k] == ' ' || arg[k] == '\t' || arg[k] == '\n' || arg[k] == '_' {
						return "C24-invalid-number"
					}
				}
			default:
				return ""
			}
		}
	}
	return ""
}

// Verif_c24_format: one pass of expand.Format over a format of n bytes and
// nargs arguments of alen bytes writes what bash's printf writes in one pass
// and consumes as many arguments; a format bash rejects is an error.
func Verif_c24_format() {
	n, nargs, alen := verifParam("n"), verifParam("nargs"), verifParam("alen")
	format := verifString("format", n)
	for i := 0; i < len(format); i++ {
		verifAssume(verifInSet(format[i], "%sdcxuobi\\n058-+ a"))
	}
	args := []string{}
	for k := 0; k < nargs; k++ {
		a := verifString(verifC24ArgIDs[k], alen)
		for i := 0; i < len(a); i++ {
			verifAssume(verifInSet(a[i], "a1-0x\\n7 "))
		}
		args = append(args, a)
	}
	want, used, bad, fatal := refPrintf(format, args)
	verifAssume(used >= 0) // directives and escapes outside the reference
	got, consumed, err := Format(nil, format, args)
	dev := verifC24Deviation(format, args)
	if dev != "" {
		if verifKnown(dev, true) {
			return
		}
	}
	if fatal && bad {
		verifAssert(err != nil, "printf: bash rejects this format, Format accepts it")
		verifReach("rejected")
		return
	}
	verifAssert(err == nil, "printf: Format fails on a format bash accepts")
	if err != nil {
		return
	}
	verifObserve("got", got)
	verifAssert(got == string(want), "printf: output differs from bash")
	verifAssert(consumed == used, "printf: number of consumed arguments differs from bash")
	verifReach("end")
}

// verifEscDeviation: s holds an escape that echo -e and %b treat differently
// from the format string: \c, \0nnn, \' \" \? (kept), and for echo -e \1..\7
// (not octal). Region of the known finding C24-percent-b-escapes.
func verifEscDeviation(s string, echo bool) bool {
	for k := 0; k+1 < len(s); k++ {
		if s[k] == '\\' {
			switch c := s[k+1]; {
			case c == 'c' || c == '0' || c == '\'' || c == '"' || c == '?':
				return true
			case echo && c >= '1' && c <= '7':
				return true
			}
			k++
		}
	}
	return false
}

// Verif_c24_echo: the escape expansion used by echo -e (Format without
// arguments) writes what bash's echo -e writes for one argument.
func Verif_c24_echo() {
	s := verifString("s", verifParam("n"))
	for i := 0; i < len(s); i++ {
		verifAssume(verifInSet(s[i], "\\abcefnrtvx0178%sd \"'?"))
	}
	var want []byte
	for k := 0; k < len(s); k++ {
		if s[k] == '\\' {
			if k+1 < len(s) && s[k+1] == 'c' {
				break
			}
			b, n := refEscape(s[k:], 2)
			verifAssume(n > 0)
			want = append(want, b...)
			k += n - 1
			continue
		}
		want = append(want, s[k])
	}
	got, _, err := Format(nil, s, nil)
	if verifEscDeviation(s, true) && verifKnown("C24-percent-b-escapes", true) {
		return
	}
	verifAssert(err == nil, "echo -e: escape expansion failed")
	verifObserve("got", got)
	verifAssert(got == string(want), "echo -e: output differs from bash")
	verifReach("end")
}
