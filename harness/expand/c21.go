package expand

import (
	"strings"

	"mvdan.cc/sh/v3/syntax"
)

// ---- reference: parameter expansion on a scalar variable ----

// refGlob matches s against a pattern of literal characters, '*', '?' and
// backslash escapes (no brackets).
func refGlob(p, s string) bool {
	if p == "" {
		return s == ""
	}
	switch p[0] {
	case '*':
		for k := 0; k <= len(s); k++ {
			if refGlob(p[1:], s[k:]) {
				return true
			}
		}
		return false
	case '?':
		return s != "" && refGlob(p[1:], s[1:])
	case '\\':
		if len(p) > 1 {
			return s != "" && s[0] == p[1] && refGlob(p[2:], s[1:])
		}
	}
	return s != "" && s[0] == p[0] && refGlob(p[1:], s[1:])
}

func refUpper(c byte) byte {
	if c >= 'a' && c <= 'z' {
		return c - 32
	}
	return c
}

func refLower(c byte) byte {
	if c >= 'A' && c <= 'Z' {
		return c + 32
	}
	return c
}

// refParam evaluates form k on a variable (set, val) with argument strings a, b.
// kind: 0 value, 1 error (bash fails the command), 2 outside the reference.
// assigned reports the new value for the := form.
func refParam(k int, set bool, val, a, b string) (out string, kind int, assigned bool) {
	null := !set || val == ""
	if k >= 8 && !set {
		return "", 0, false // nothing is applied to an unset variable
	}
	if k >= 12 && k <= 15 && a == "" {
		return "", 2, false // "${v//B}" reads as another form
	}
	switch k {
	case 0: // ${v}
		return val, 0, false
	case 1: // ${#v}
		n := len(val)
		if n > 9 {
			return "", 2, false
		}
		return string(rune('0' + n)), 0, false
	case 2: // ${v:-a}
		if null {
			return a, 0, false
		}
		return val, 0, false
	case 3: // ${v-a}
		if !set {
			return a, 0, false
		}
		return val, 0, false
	case 4: // ${v:+a}
		if null {
			return "", 0, false
		}
		return a, 0, false
	case 5: // ${v+a}
		if !set {
			return "", 0, false
		}
		return a, 0, false
	case 6: // ${v:=a}
		if null {
			return a, 0, true
		}
		return val, 0, false
	case 7: // ${v:?a}
		if null {
			return "", 1, false
		}
		return val, 0, false
	case 8, 9: // ${v#a} ${v##a}
		best := -1
		for i := 0; i <= len(val); i++ {
			if refGlob(a, val[:i]) {
				best = i
				if k == 8 {
					break
				}
			}
		}
		if best < 0 {
			return val, 0, false
		}
		return val[best:], 0, false
	case 10, 11: // ${v%a} ${v%%a}
		best := -1
		for i := len(val); i >= 0; i-- {
			if refGlob(a, val[i:]) {
				best = i
				if k == 10 {
					break
				}
			}
		}
		if best < 0 {
			return val, 0, false
		}
		return val[:best], 0, false
	case 12, 13: // ${v/a/b} ${v//a/b}
		if val == "" && refGlob(a, "") {
			return b, 0, false // the empty string is replaced once
		}
		var sb strings.Builder
		i := 0
		for i < len(val) {
			// longest match starting at i
			m := -1
			for j := len(val); j >= i; j-- {
				if refGlob(a, val[i:j]) {
					m = j
					break
				}
			}
			if m < 0 || m == i && false {
				sb.WriteByte(val[i])
				i++
				continue
			}
			if m == i { // empty match: bash moves on one character
				sb.WriteByte(val[i])
				i++
				continue
			}
			sb.WriteString(b)
			i = m
			if k == 12 {
				sb.WriteString(val[i:])
				return sb.String(), 0, false
			}
		}
		return sb.String(), 0, false
	case 14: // ${v/#a/b}
		for j := len(val); j >= 0; j-- {
			if refGlob(a, val[:j]) {
				return b + val[j:], 0, false
			}
		}
		return val, 0, false
	case 15: // ${v/%a/b}
		for i := 0; i <= len(val); i++ {
			if refGlob(a, val[i:]) {
				return val[:i] + b, 0, false
			}
		}
		return val, 0, false
	case 16: // ${v^} 17 ${v^^} 18 ${v,} 19 ${v,,}
		if val == "" {
			return "", 0, false
		}
		return string(refUpper(val[0])) + val[1:], 0, false
	case 17:
		o := []byte(val)
		for i := range o {
			o[i] = refUpper(o[i])
		}
		return string(o), 0, false
	case 18:
		if val == "" {
			return "", 0, false
		}
		return string(refLower(val[0])) + val[1:], 0, false
	case 19:
		o := []byte(val)
		for i := range o {
			o[i] = refLower(o[i])
		}
		return string(o), 0, false
	}
	return "", 2, false
}

// refSlice: ${v:off} and ${v:off:len} with small integers.
func refSlice(val string, off, ln int, hasLen bool) (string, int) {
	n := len(val)
	if off < 0 {
		off += n
		if off < 0 {
			return "", 0
		}
	}
	if off > n {
		return "", 0
	}
	end := n
	if hasLen {
		if ln < 0 {
			end = n + ln
			if end < off {
				return "", 1 // substring expression < 0
			}
		} else if off+ln < n {
			end = off + ln
		}
	}
	return val[off:end], 0
}

var refParamForms = [...]string{"${v}", "${#v}", "${v:-A}", "${v-A}", "${v:+A}", "${v+A}", "${v:=A}", "${v:?A}", "${v#A}", "${v##A}", "${v%A}", "${v%%A}",
	"${v/A/B}", "${v//A/B}", "${v/#A/B}", "${v/%A/B}", "${v^}", "${v^^}", "${v,}", "${v,,}", "${v:O}", "${v:O:L}"}

var refSliceArgs = [...]int{0, 1, 2, 3, -1, -2}

func refSliceText(k, off, ln int) string {
	num := func(n int) string {
		if n < 0 {
			return " -" + string(rune('0'-n))
		}
		return string(rune('0' + n))
	}
	t := strings.Replace(refParamForms[k], "O", num(off), 1)
	return strings.Replace(t, "L", num(ln), 1)
}

func refParamText(k int, a, b string) string {
	t := refParamForms[k]
	t = strings.Replace(t, "A", a, 1)
	return strings.Replace(t, "B", b, 1)
}

// ---- harness ----

func refSplitWS(s string) []string {
	var out []string
	cur := ""
	for i := 0; i < len(s); i++ {
		if s[i] == ' ' || s[i] == '\t' || s[i] == '\n' {
			if cur != "" {
				out = append(out, cur)
				cur = ""
			}
			continue
		}
		cur += string(s[i])
	}
	if cur != "" {
		out = append(out, cur)
	}
	return out
}

// Verif_c21_param: every scalar parameter expansion form, on an unset, empty or
// arbitrary nv-byte variable with arbitrary short arguments, quoted and
// unquoted, yields the fields of the reference for bash.
func Verif_c21_param() {
	k := verifParam("form")
	if k < 0 {
		k = verifChoice("form", len(refParamForms))
	}
	set := verifBool("set")
	val := ""
	if set {
		val = verifString("val", verifChoice("vlen", verifParam("nv")+1))
		for i := 0; i < len(val); i++ {
			verifAssume(verifInSet(val[i], "ab*B "))
		}
	}
	a, b := "", ""
	if strings.Contains(refParamForms[k], "A") {
		a = verifString("a", verifChoice("alen", verifParam("na")+1))
		for i := 0; i < len(a); i++ {
			verifAssume(verifInSet(a[i], "ab*?"))
		}
	}
	if strings.Contains(refParamForms[k], "B") {
		b = verifString("b", verifChoice("blen", 2))
		for i := 0; i < len(b); i++ {
			verifAssume(verifInSet(b[i], "aZ"))
		}
	}
	want, kind, assigned := refParam(k, set, val, a, b)
	text := refParamText(k, a, b)
	if k >= 20 {
		off := refSliceArgs[verifChoice("off", len(refSliceArgs))]
		ln := 0
		if k == 21 {
			ln = refSliceArgs[verifChoice("len", len(refSliceArgs))]
		}
		want, kind = refSlice(val, off, ln, k == 21)
		if !set {
			want, kind = "", 0 // nothing is applied to an unset variable
		}
		assigned = false
		text = refSliceText(k, off, ln)
	}
	verifAssume(kind != 2)
	quoted := verifBool("quoted")
	src := ": " + text
	if quoted {
		src = ": \"" + text + "\""
	}
	f, perr := syntax.NewParser().Parse(strings.NewReader(src), "")
	verifAssert(perr == nil, "parameter expansion: the parser rejects a form bash accepts")
	if perr != nil {
		return
	}
	env := &verifArithEnv{vals: map[string]string{}}
	if set {
		env.vals["v"] = val
	}
	word := f.Stmts[0].Cmd.(*syntax.CallExpr).Args[1]
	got, err := Fields(&Config{Env: env}, word)
	if kind == 1 {
		verifAssert(err != nil, "parameter expansion: bash fails here (${v:?w} on an unset or empty variable, or a slice ending before its start)")
		verifReach("rejected")
		return
	}
	verifAssert(err == nil, "parameter expansion: fails where bash succeeds")
	if err != nil {
		return
	}
	var wantFields []string
	if quoted {
		wantFields = []string{want}
	} else {
		wantFields = refSplitWS(want)
	}
	verifAssert(len(got) == len(wantFields), "parameter expansion: number of fields differs from bash")
	if len(got) == len(wantFields) {
		for i := range got {
			verifAssert(got[i] == wantFields[i], "parameter expansion: field differs from bash")
		}
	}
	if assigned {
		verifAssert(env.vals["v"] == want, "parameter expansion: ${v:=w} did not assign")
	} else if set {
		verifAssert(env.vals["v"] == val, "parameter expansion: the variable changed")
	}
	verifReach("end")
}
