package expand

import "mvdan.cc/sh/v3/syntax"

// Verif_c20_binop: binArit against C intmax_t semantics, full 64-bit width.
func Verif_c20_binop() {
	ops := [...]syntax.BinAritOperator{syntax.Add, syntax.Sub, syntax.Mul, syntax.Quo, syntax.Rem, syntax.Pow, syntax.Eql, syntax.Gtr,
		syntax.Lss, syntax.Neq, syntax.Leq, syntax.Geq, syntax.And, syntax.Or, syntax.Xor, syntax.Shr, syntax.Shl, syntax.Comma}
	var op syntax.BinAritOperator
	if only := verifParam("only"); only >= 0 {
		op = ops[only]
	} else {
		op = ops[verifChoice("op", len(ops))]
	}
	x := verifInt("x")
	y := verifInt("y")
	switch op {
	case syntax.Quo, syntax.Rem:
		verifAssume(!(x == -1<<63 && y == -1))
	case syntax.Pow:
		verifAssume(y < 8)
	case syntax.Shl, syntax.Shr:
		verifAssume(y >= 0 && y <= 63)
	}
	got, err := binArit(op, x, y)
	var want int
	wantErr := false
	b2i := func(b bool) int {
		if b {
			return 1
		}
		return 0
	}
	switch op {
	case syntax.Add:
		want = int(int64(x) + int64(y))
	case syntax.Sub:
		want = int(int64(x) - int64(y))
	case syntax.Mul:
		want = int(int64(x) * int64(y))
	case syntax.Quo:
		if y == 0 {
			wantErr = true
		} else {
			want = x / y
		}
	case syntax.Rem:
		if y == 0 {
			wantErr = true
		} else {
			want = x % y
		}
	case syntax.Pow:
		if y < 0 {
			wantErr = true
		} else {
			// bash's own square-and-multiply (expr.c ipow)
			want = 1
			for b, a := y, x; b != 0; b >>= 1 {
				if b&1 != 0 {
					want *= a
				}
				a *= a
			}
		}
	case syntax.Eql:
		want = b2i(x == y)
	case syntax.Neq:
		want = b2i(x != y)
	case syntax.Lss:
		want = b2i(x < y)
	case syntax.Gtr:
		want = b2i(x > y)
	case syntax.Leq:
		want = b2i(x <= y)
	case syntax.Geq:
		want = b2i(x >= y)
	case syntax.And:
		want = x & y
	case syntax.Or:
		want = x | y
	case syntax.Xor:
		want = x ^ y
	case syntax.Shl:
		want = int(uint64(x) << uint64(y))
	case syntax.Shr:
		want = x >> uint64(y)
	case syntax.Comma:
		want = y
	default:
		// not a binary arithmetic operator handled by binArit
		verifAssert(err != nil, "unknown operator must be an error")
		verifReach("unknown-op")
		return
	}
	verifAssert((err != nil) == wantErr, "error status differs from bash")
	if !wantErr {
		verifAssert(got == want, "value differs from bash's 64-bit arithmetic")
	}
	verifReach("end")
}
