package expand

import "strings"

var verifPairIDs = [...]string{"pair0", "pair1", "pair2", "pair3"}
var verifPairLenIDs = [...]string{"len0", "len1", "len2", "len3"}

// Verif_c34_listenviron: ListEnviron behaves like a map built left to right.
func Verif_c34_listenviron() {
	K := verifParam("K")
	maxLen := verifParam("maxlen")
	pairs := make([]string, K)
	for i := range pairs {
		ln := verifChoice(verifPairLenIDs[i], maxLen+1)
		s := verifString(verifPairIDs[i], ln)
		for j := 0; j < len(s); j++ {
			verifAssume(verifInSet(s[j], "ab=A1"))
		}
		pairs[i] = s
	}
	env := listEnviron_(false, pairs...)
	// reference: last valid pair wins
	var names, values []string
	for _, p := range pairs {
		name, val, ok := strings.Cut(p, "=")
		if !ok || name == "" {
			continue
		}
		found := false
		for j := range names {
			if names[j] == name {
				values[j] = val
				found = true
			}
		}
		if !found {
			names = append(names, name)
			values = append(values, val)
		}
	}
	// Get on an arbitrary name
	qn := verifChoice("qlen", 3)
	q := verifString("q", qn)
	for j := 0; j < len(q); j++ {
		verifAssume(verifInSet(q[j], "abA1"))
	}
	got := env.Get(q)
	want, has := "", false
	for j := range names {
		if names[j] == q {
			want, has = values[j], true
		}
	}
	verifAssert(got.IsSet() == has, "Get: set-ness differs from the map model")
	if has {
		verifAssert(got.Kind == String && got.Exported && got.Str == want, "Get: value differs from the map model")
	}
	// Each: exactly the model's names, once each, in sorted order
	var seen []string
	env.Each(func(name string, vr Variable) bool {
		seen = append(seen, name)
		w, ok := "", false
		for j := range names {
			if names[j] == name {
				w, ok = values[j], true
			}
		}
		verifAssert(ok, "Each yields a name that was never given")
		verifAssert(vr.Str == w && vr.IsSet(), "Each yields a stale value")
		return true
	})
	verifAssert(len(seen) == len(names), "Each yields the wrong number of names")
	for i := 1; i < len(seen); i++ {
		verifAssert(seen[i-1] < seen[i], "Each is not strictly sorted")
	}
	// FuncEnviron treats "" as unset
	fe := FuncEnviron(func(n string) string {
		if n == q && has {
			return want
		}
		return ""
	})
	fv := fe.Get(q)
	verifAssert(fv.IsSet() == (has && want != ""), "FuncEnviron: empty value must be unset")
	verifReach("end")
}

var verifLongNames = [...]string{"k", "j", "i", "h", "g", "f", "e", "d", "c", "b", "a", "m", "n", "o", "p", "q", "r", "s", "t", "u"}

// Verif_c34_long: a long list (sorting no longer falls back to insertion sort)
// in which two symbolically chosen positions carry the same name: Get returns
// the value given last, Each yields the name once, in sorted order.
func Verif_c34_long() {
	n := verifParam("n")
	i := verifChoice("first", n-1)
	j := i + 1 + verifChoice("gap", n-1-i)
	vals := verifString("vals", n)
	for k := 0; k < len(vals); k++ {
		verifAssume(vals[k] >= 'A' && vals[k] <= 'Z')
	}
	var pairs []string
	for k := 0; k < n; k++ {
		name := verifLongNames[k]
		if k == i || k == j {
			name = "X"
		}
		pairs = append(pairs, name+"="+vals[k:k+1])
	}
	env := ListEnviron(pairs...)
	vr := env.Get("X")
	verifAssert(vr.IsSet() && vr.Str == vals[j:j+1], "ListEnviron: Get does not return the value given last for a repeated name")
	count, prev, sorted := 0, "", true
	env.Each(func(name string, v Variable) bool {
		if name == "X" {
			count++
			verifAssert(v.Str == vals[j:j+1], "ListEnviron: Each yields an earlier value of a repeated name")
		}
		if prev != "" && !(prev < name) {
			sorted = false
		}
		prev = name
		return true
	})
	verifAssert(count == 1, "ListEnviron: Each yields a repeated name more or less than once")
	verifAssert(sorted, "ListEnviron: Each is not in sorted order")
	verifReach("end")
}
