package expand

import (
	"strings"

	"mvdan.cc/sh/v3/syntax"
)

// ---- reference: bash's arithmetic evaluator (expr.c) over a token list ----

type refTok struct {
	kind int // 0 number, 1 variable, 2 operator, 3 "(", 4 ")"
	text string
	val  int
}

type refNode struct {
	kind    int // 0 number, 1 variable, 2 unary, 3 binary, 4 ternary, 5 assignment, 6 pre-inc/dec, 7 post-inc/dec, 8 parentheses
	op      string
	val     int
	name    string
	a, b, c *refNode
}

type refParser struct {
	toks []refTok
	pos  int
	bad  bool // syntax error
	out  bool // outside the reference (bash quirks)
}

func (p *refParser) peekOp() string {
	if p.pos < len(p.toks) && p.toks[p.pos].kind == 2 {
		return p.toks[p.pos].text
	}
	return ""
}

func (p *refParser) comma() *refNode {
	n := p.assign()
	for !p.bad && p.peekOp() == "," {
		p.pos++
		n = &refNode{kind: 3, op: ",", a: n, b: p.assign()}
	}
	return n
}

func refIsAssignOp(op string) bool {
	switch op {
	case "=", "+=", "-=", "*=", "/=", "%=", "<<=", ">>=", "&=", "|=", "^=":
		return true
	}
	return false
}

func (p *refParser) assign() *refNode {
	n := p.cond()
	if op := p.peekOp(); !p.bad && refIsAssignOp(op) {
		if n == nil || n.kind != 1 {
			if p.pos > 0 && p.toks[p.pos-1].kind == 1 {
				// bash assigns to the last identifier it read ("1 + x = 2"); a quirk
				p.out = true
			} else {
				p.bad = true // attempted assignment to non-variable
			}
			return n
		}
		p.pos++
		return &refNode{kind: 5, op: op, name: n.name, b: p.assign()}
	}
	return n
}

func (p *refParser) cond() *refNode {
	n := p.binary(0)
	if !p.bad && p.peekOp() == "?" {
		p.pos++
		mid := p.comma()
		if p.peekOp() != ":" {
			p.bad = true
			return n
		}
		p.pos++
		return &refNode{kind: 4, a: n, b: mid, c: p.cond()}
	}
	return n
}

var refLevels = [...][]string{
	{"||"}, {"&&"}, {"|"}, {"^"}, {"&"}, {"==", "!="}, {"<", ">", "<=", ">="}, {"<<", ">>"}, {"+", "-"}, {"*", "/", "%"},
}

func (p *refParser) binary(level int) *refNode {
	if level == len(refLevels) {
		return p.power()
	}
	n := p.binary(level + 1)
	for !p.bad {
		op := p.peekOp()
		if op == "++" || op == "--" {
			// after something that is not an identifier bash reads these as
			// a binary sign and a unary sign, or as a pre-increment: a quirk
			p.out = true
			return n
		}
		found := false
		for _, o := range refLevels[level] {
			if o == op {
				found = true
			}
		}
		if !found {
			break
		}
		p.pos++
		n = &refNode{kind: 3, op: op, a: n, b: p.binary(level + 1)}
	}
	return n
}

func (p *refParser) power() *refNode {
	n := p.unary()
	if !p.bad && p.peekOp() == "**" {
		p.pos++
		return &refNode{kind: 3, op: "**", a: n, b: p.power()}
	}
	return n
}

func (p *refParser) unary() *refNode {
	switch op := p.peekOp(); op {
	case "!", "~", "-", "+":
		p.pos++
		return &refNode{kind: 2, op: op, a: p.unary()}
	}
	return p.primary()
}

func (p *refParser) primary() *refNode {
	if p.pos >= len(p.toks) {
		p.bad = true
		return nil
	}
	t := p.toks[p.pos]
	switch {
	case t.kind == 2 && (t.text == "++" || t.text == "--"):
		// a pre-increment only when an identifier follows; otherwise two signs
		if p.pos+1 < len(p.toks) && p.toks[p.pos+1].kind == 1 {
			p.pos += 2
			return &refNode{kind: 6, op: t.text, name: p.toks[p.pos-1].text}
		}
		p.pos++
		return &refNode{kind: 2, op: t.text[:1], a: &refNode{kind: 2, op: t.text[:1], a: p.unary()}}
	case t.kind == 0:
		p.pos++
		return &refNode{kind: 0, val: t.val}
	case t.kind == 1:
		p.pos++
		if op := p.peekOp(); op == "++" || op == "--" {
			p.pos++
			return &refNode{kind: 7, op: op, name: t.text}
		}
		return &refNode{kind: 1, name: t.text}
	case t.kind == 3:
		p.pos++
		n := p.comma()
		if p.pos >= len(p.toks) || p.toks[p.pos].kind != 4 {
			p.bad = true
			return n
		}
		p.pos++
		return &refNode{kind: 8, a: n}
	}
	p.bad = true
	return nil
}

type refEnv struct {
	x, y int
	bad  bool
	out  bool // shift count outside 0..63: platform-defined, outside the property
}

func (e *refEnv) get(name string) int {
	if name == "x" {
		return e.x
	}
	return e.y
}

func (e *refEnv) set(name string, v int) {
	if name == "x" {
		e.x = v
	} else {
		e.y = v
	}
}

func refB2I(b bool) int {
	if b {
		return 1
	}
	return 0
}

func refBinop(e *refEnv, op string, a, b int, live bool) int {
	switch op {
	case "+":
		return a + b
	case "-":
		return a - b
	case "*":
		return a * b
	case "/", "%":
		if b == 0 {
			if live {
				e.bad = true
			}
			return 0
		}
		if op == "/" {
			return a / b
		}
		return a % b
	case "**":
		if b < 0 {
			if live {
				e.bad = true
			}
			return 0
		}
		r := 1
		for ; b > 0; b-- {
			r *= a
		}
		return r
	case "<<", ">>":
		if b < 0 || b > 63 {
			if live {
				e.out = true
			}
			return 0
		}
		if op == "<<" {
			return a << uint(b)
		}
		return a >> uint(b)
	case "<":
		return refB2I(a < b)
	case ">":
		return refB2I(a > b)
	case "<=":
		return refB2I(a <= b)
	case ">=":
		return refB2I(a >= b)
	case "==":
		return refB2I(a == b)
	case "!=":
		return refB2I(a != b)
	case "&":
		return a & b
	case "|":
		return a | b
	case "^":
		return a ^ b
	case ",":
		return b
	}
	return 0
}

// eval computes n; with live false the side effects and errors are suppressed
// (bash's noeval for the branch not taken).
func (e *refEnv) eval(n *refNode, live bool) int {
	if n == nil || e.bad {
		return 0
	}
	switch n.kind {
	case 0:
		return n.val
	case 1:
		return e.get(n.name)
	case 2:
		v := e.eval(n.a, live)
		switch n.op {
		case "!":
			return refB2I(v == 0)
		case "~":
			return ^v
		case "-":
			return -v
		}
		return v
	case 3:
		switch n.op {
		case "&&":
			a := e.eval(n.a, live)
			b := e.eval(n.b, live && a != 0)
			return refB2I(a != 0 && b != 0)
		case "||":
			a := e.eval(n.a, live)
			b := e.eval(n.b, live && a == 0)
			return refB2I(a != 0 || b != 0)
		}
		a := e.eval(n.a, live)
		b := e.eval(n.b, live)
		return refBinop(e, n.op, a, b, live)
	case 4:
		c := e.eval(n.a, live)
		t := e.eval(n.b, live && c != 0)
		f := e.eval(n.c, live && c == 0)
		if c != 0 {
			return t
		}
		return f
	case 5:
		old := e.get(n.name) // the left side is read before the right side runs
		v := e.eval(n.b, live)
		if n.op != "=" {
			v = refBinop(e, n.op[:len(n.op)-1], old, v, live)
		}
		if live && !e.bad {
			e.set(n.name, v)
		}
		return v
	case 8:
		return e.eval(n.a, live)
	case 6, 7:
		old := e.get(n.name)
		nv := old + 1
		if n.op == "--" {
			nv = old - 1
		}
		if live {
			e.set(n.name, nv)
		}
		if n.kind == 6 {
			return nv
		}
		return old
	}
	return 0
}

// refArith: kind 0 ok, 1 error in bash, 2 outside the reference.
func refArith(toks []refTok, x, y int) (val, nx, ny, kind int) {
	p := &refParser{toks: toks}
	n := p.comma()
	if p.out {
		return 0, 0, 0, 2
	}
	if p.bad || p.pos != len(toks) {
		return 0, x, y, 1
	}
	e := &refEnv{x: x, y: y}
	v := e.eval(n, true)
	if e.out {
		return 0, 0, 0, 2
	}
	if e.bad {
		return 0, 0, 0, 1
	}
	return v, e.x, e.y, 0
}

func refArithText(toks []refTok, digits []string) string {
	var sb strings.Builder
	k := 0
	for i, t := range toks {
		if i > 0 {
			sb.WriteByte(' ')
		}
		if t.kind == 0 {
			sb.WriteString(digits[k])
			k++
		} else {
			sb.WriteString(t.text)
		}
	}
	return sb.String()
}

// ---- harness ----

var verifArithOperand = [...]string{"#", "x", "y", "-", "!", "~", "++", "--", "("}
var verifArithAfter = [...]string{"+", "-", "*", "/", "%", "**", "<<", ">>", "<", ">", "<=", ">=", "==", "!=", "&", "|", "^", "&&", "||",
	"?", ":", ",", "=", "+=", "-=", "*=", "/=", "%=", "<<=", ">>=", "&=", "|=", "^=", "++", "--", ")"}

var verifSlotIDs = [...]string{"t0", "t1", "t2", "t3", "t4", "t5", "t6", "t7"}
var verifDigitIDs = [...]string{"d0", "d1", "d2", "d3", "d4"}

type verifArithEnv struct {
	vals map[string]string
}

func (e *verifArithEnv) Get(name string) Variable {
	if v, ok := e.vals[name]; ok {
		return Variable{Set: true, Kind: String, Str: v}
	}
	return Variable{}
}
func (e *verifArithEnv) Each(func(name string, vr Variable) bool) {}
func (e *verifArithEnv) Set(name string, vr Variable) error {
	e.vals[name] = vr.Str
	return nil
}

// Verif_c20_eval: every well-formed token sequence of n tokens (operands with
// symbolic digits, x and y with symbolic one-digit values) evaluates through
// syntax.Parser.Arithmetic + expand.Arithm to the value, side effects and
// error status of the reference for bash.
func Verif_c20_eval() {
	n, nops := verifParam("n"), verifParam("nops")
	var toks []refTok
	var digits []string
	operand := true
	depth := 0
	for i := 0; i < n; i++ {
		if operand {
			c := verifArithOperand[verifChoice(verifSlotIDs[i], len(verifArithOperand))]
			switch c {
			case "#":
				verifAssume(len(digits) < len(verifDigitIDs))
				d := verifByte(verifDigitIDs[len(digits)])
				verifAssume(d >= '0' && d <= '9')
				digits = append(digits, string([]byte{d}))
				toks = append(toks, refTok{kind: 0, val: int(d - '0')})
				operand = false
			case "x", "y":
				toks = append(toks, refTok{kind: 1, text: c})
				operand = false
			case "(":
				depth++
				toks = append(toks, refTok{kind: 3, text: c})
			default:
				toks = append(toks, refTok{kind: 2, text: c})
			}
		} else {
			c := verifArithAfter[verifChoice(verifSlotIDs[i], nops)]
			switch c {
			case ")":
				verifAssume(depth > 0)
				depth--
				toks = append(toks, refTok{kind: 4, text: c})
			case "++", "--":
				toks = append(toks, refTok{kind: 2, text: c})
			default:
				toks = append(toks, refTok{kind: 2, text: c})
				operand = true
			}
		}
	}
	verifAssume(!operand && depth == 0)
	xs := verifString("x", 1)
	verifAssume(xs[0] >= '0' && xs[0] <= '9')
	x := int(xs[0] - '0')
	want, wx, wy, kind := refArith(toks, x, 0)
	verifAssume(kind != 2)
	text := refArithText(toks, digits)
	env := &verifArithEnv{vals: map[string]string{"x": xs}}
	// parsed in its real context, an arithmetic expansion
	f, perr := syntax.NewParser().Parse(strings.NewReader(": $(( "+text+" ))"), "")
	var got int
	var err error
	if perr == nil {
		expr := f.Stmts[0].Cmd.(*syntax.CallExpr).Args[1].Parts[0].(*syntax.ArithmExp).X
		got, err = Arithm(&Config{Env: env}, expr)
	}
	// "++"/"--" where an operand is expected and no identifier follows: bash
	// reads two signs, the parser an increment (known finding)
	dbl := false
	for i, t := range toks {
		if t.kind == 2 && (t.text == "++" || t.text == "--") && (i == 0 || toks[i-1].kind == 2 || toks[i-1].kind == 3) &&
			(i+1 >= len(toks) || toks[i+1].kind != 1) {
			dbl = true
		}
	}
	if verifKnown("C20-double-sign-read-as-increment", dbl) {
		return
	}
	if kind == 1 {
		verifAssert(perr != nil || err != nil, "arithmetic: bash reports an error, the interpreter does not")
		verifReach("rejected")
		return
	}
	verifAssert(perr == nil, "arithmetic: the parser rejects an expression bash evaluates")
	if perr != nil {
		return
	}
	verifAssert(err == nil, "arithmetic: evaluation fails where bash succeeds")
	if err != nil {
		return
	}
	verifAssert(got == want, "arithmetic: value differs from bash")
	verifAssert(int(atoi(env.vals["x"])) == wx, "arithmetic: x differs from bash afterwards")
	verifAssert(int(atoi(env.vals["y"])) == wy, "arithmetic: y differs from bash afterwards")
	verifReach("end")
}

// Verif_c20_varexpr: a variable whose value is expression text ("1+2") is
// evaluated as a sub-expression, as in bash.
func Verif_c20_varexpr() {
	d := verifString("d", 2)
	verifAssume(d[0] >= '0' && d[0] <= '9' && d[1] >= '0' && d[1] <= '9')
	ops := [...]string{"+", "-", "*"}
	op := ops[verifChoice("op", len(ops))]
	xs := d[:1] + op + d[1:]
	a, b := int(d[0]-'0'), int(d[1]-'0')
	var xv int
	switch op {
	case "+":
		xv = a + b
	case "-":
		xv = a - b
	default:
		xv = a * b
	}
	texts := [...]string{"x", "x * 2", "y", "1 + y"}
	k := verifChoice("expr", len(texts))
	want := xv
	switch k {
	case 1:
		want = xv * 2
	case 3:
		want = 1 + xv
	}
	env := &verifArithEnv{vals: map[string]string{"x": xs, "y": "x"}}
	f, perr := syntax.NewParser().Parse(strings.NewReader(": $(( "+texts[k]+" ))"), "")
	verifAssume(perr == nil)
	expr := f.Stmts[0].Cmd.(*syntax.CallExpr).Args[1].Parts[0].(*syntax.ArithmExp).X
	got, err := Arithm(&Config{Env: env}, expr)
	verifReach("end") // the whole harness lies in the region of the known finding
	if verifKnown("C20-variable-holding-expression", true) {
		return
	}
	verifAssert(err == nil, "arithmetic: evaluation fails on a variable holding an expression")
	verifAssert(got == want, "arithmetic: a variable holding an expression is not evaluated")
}
