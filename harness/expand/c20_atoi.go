package expand

// ---- reference: bash's integer constant syntax (expr.c strlong) ----

// refLiteral classifies s: kind 0 = a valid integer constant with value v,
// 1 = looks like a number (starts with a digit) but bash rejects it,
// 2 = not a number at all (a name or an expression).
func refLiteral(s string) (v int64, kind int) {
	for len(s) > 0 && (s[0] == ' ' || s[0] == '\t' || s[0] == '\n') {
		s = s[1:]
	}
	for len(s) > 0 && (s[len(s)-1] == ' ' || s[len(s)-1] == '\t' || s[len(s)-1] == '\n') {
		s = s[:len(s)-1]
	}
	if s == "" {
		return 0, 0
	}
	neg := false
	if s[0] == '+' || s[0] == '-' {
		neg = s[0] == '-'
		s = s[1:]
		if s == "" {
			return 0, 2
		}
	}
	if s[0] < '0' || s[0] > '9' {
		return 0, 2
	}
	base := int64(10)
	digits := s
	switch {
	case len(s) >= 2 && s[0] == '0' && (s[1] == 'x' || s[1] == 'X'):
		base, digits = 16, s[2:] // bash accepts a bare "0x" as zero
	case s[0] == '0':
		base, digits = 8, s[1:]
	default:
		// base#digits
		for i := 0; i < len(s); i++ {
			if s[i] == '#' {
				b := int64(0)
				for k := 0; k < i; k++ {
					if s[k] < '0' || s[k] > '9' {
						return 0, 1
					}
					b = b*10 + int64(s[k]-'0')
					if b > 64 {
						return 0, 1
					}
				}
				if b < 2 {
					return 0, 1
				}
				base, digits = b, s[i+1:]
				if digits == "" {
					return 0, 1
				}
				break
			}
		}
	}
	var n int64
	for i := 0; i < len(digits); i++ {
		c := digits[i]
		var d int64
		switch {
		case c >= '0' && c <= '9':
			d = int64(c - '0')
		case c >= 'a' && c <= 'z':
			d = int64(c-'a') + 10
		case c >= 'A' && c <= 'Z':
			d = int64(c-'A') + 36
			if base <= 36 {
				d = int64(c-'A') + 10
			}
		case c == '@':
			d = 62
		case c == '_':
			d = 63
		default:
			return 0, 1
		}
		if d >= base {
			return 0, 1
		}
		n = n*base + d
	}
	if neg {
		n = -n
	}
	return n, 0
}

// Verif_c20_atoi: the value of an integer constant is bash's.
func Verif_c20_atoi() {
	s := verifString("s", verifParam("n"))
	for i := 0; i < len(s); i++ {
		verifAssume(verifInSet(s[i], "01789afzAZxX#@_+- "))
	}
	// at most one sign, in front (further signs are operators)
	for i := 1; i < len(s); i++ {
		verifAssume(!(s[i] == '+' || s[i] == '-') || s[i-1] == ' ')
	}
	got := atoi(s)
	want, kind := refLiteral(s)
	switch kind {
	case 0:
		verifAssert(got == want, "integer constant has a different value than in bash")
		verifReach("valid")
	case 1:
		if verifKnown("C20-invalid-literal-yields-0", true) {
			return
		}
		verifAssert(false, "bash rejects this integer constant, the implementation accepts it")
	default:
		verifAssert(got == 0, "text that is not a number must count as zero")
	}
	verifReach("end")
}
