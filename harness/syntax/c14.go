package syntax

import "bytes"

// Verif_c14_walk: Walk and Preorder visit every node reachable through
// exported fields exactly once, with the nil-callback and pruning contract.
func Verif_c14_walk() {
	n := verifParam("n")
	lang := verifLang(verifParam("lang"))
	src := verifSrc(n)
	if pre := verifParam("prefix"); pre > 0 {
		src = append([]byte(verifC14Prefixes[pre-1]), src...)
	}
	f, err := NewParser(Variant(lang), KeepComments(true)).Parse(bytes.NewReader(src), "")
	verifAssume(err == nil)
	want := verifCensus(f)
	total := 0
	for _, c := range want {
		total += c
	}
	got := map[string]int{}
	seen := map[Node]bool{}
	nonNil, nils, depth, maxDepth := 0, 0, 0, 0
	var order, stack []Node
	Walk(f, func(nd Node) bool {
		if nd == nil {
			nils++
			depth--
			verifAssert(depth >= 0, "more f(nil) calls than nodes entered")
			if len(stack) > 0 {
				stack = stack[:len(stack)-1]
			}
			return true
		}
		nonNil++
		depth++
		if depth > maxDepth {
			maxDepth = depth
		}
		if c, isCom := nd.(*Comment); !isCom {
			verifAssert(!seen[nd], "Walk visited a node twice")
			seen[nd] = true
		} else {
			verifAssert(len(stack) > 0 && verifOwnsComment(stack[len(stack)-1], c), "Walk visited a comment outside the node that holds it")
		}
		stack = append(stack, nd)
		got[verifTypeOf(nd)]++
		order = append(order, nd)
		return true
	})
	verifAssert(depth == 0 && nils == nonNil, "f(nil) is not called exactly once after each entered node")
	verifAssert(nonNil == total, "Walk visits a different number of nodes than are reachable through exported fields")
	for k, c := range want {
		verifAssert(got[k] == c, "Walk misses or repeats nodes of some type")
	}
	// Preorder yields the same sequence
	i := 0
	for nd := range Preorder(f) {
		if i < len(order) {
			_, c1 := nd.(*Comment)
			_, c2 := order[i].(*Comment)
			verifAssert(c1 == c2 && (c1 || nd == order[i]), "Preorder yields a different sequence than Walk")
		}
		i++
	}
	verifAssert(i == len(order), "Preorder yields a different number of nodes than Walk")
	// early termination at every position k
	if total > 0 {
		k := verifChoice("stopAt", total)
		j := 0
		for range Preorder(f) {
			if j == k {
				break
			}
			j++
		}
		verifAssert(j == k, "Preorder kept yielding after the consumer stopped")
		// pruning at the k-th node skips exactly its descendants
		sub := 0
		for _, c := range verifCensus(order[k]) {
			sub += c
		}
		if _, isCom := order[k].(*Comment); isCom {
			sub = 1
		}
		vis, nilCalls, idx := 0, 0, 0
		Walk(f, func(nd Node) bool {
			if nd == nil {
				nilCalls++
				return true
			}
			vis++
			idx++
			return idx-1 != k
		})
		verifAssert(vis == total-(sub-1), "pruning does not skip exactly the children of the pruned node")
		verifAssert(nilCalls == vis-1, "f(nil) is called for a node whose children were not entered")
	}
	verifReach("end")
}

var verifC14Prefixes = [...]string{
	"a=(b [c]=d) e+=f g[1]=h\n",
	"if a; then b; elif c; then d; else e; fi # c\n",
	"for i in a b; do c; done; for ((i=0;i<1;i++)); do :; done; while a; do b; done\n",
	"case x in a|b) c;; *) d;& e) f;;& esac\n",
	"f() { a; }; function g { b; } >o 2>&1 <<EOF\nh $i\nEOF\n",
	"[[ a == b && -n c || ! d ]]; (( a + b )); let a=1; declare -a x=(1); coproc c { :; }; time a\n",
	"echo ${a:-b} ${a:1:2} ${a/b/c} ${!a} ${#a} ${a[1]} ${a@Q} $((1+2)) $(a) `b` <(c) \"d $e\" 'f' $'g' ?(h) a{b,c}\n",
	"a | b && c || d & e |& f; ! g; { h; }; ( i )\n",
	"echo ${a:h:t} ${(f)b} ${${c}} $=d $~e\n", // zsh only
}

// verifOwnsComment: c is one of the comments held directly by p.
func verifOwnsComment(p Node, c *Comment) bool {
	var lists [][]Comment
	switch p := p.(type) {
	case *File:
		lists = [][]Comment{p.Last}
	case *Stmt:
		lists = [][]Comment{p.Comments}
	case *Subshell:
		lists = [][]Comment{p.Last}
	case *Block:
		lists = [][]Comment{p.Last}
	case *IfClause:
		lists = [][]Comment{p.CondLast, p.ThenLast, p.Last}
	case *WhileClause:
		lists = [][]Comment{p.CondLast, p.DoLast}
	case *ForClause:
		lists = [][]Comment{p.DoLast}
	case *CmdSubst:
		lists = [][]Comment{p.Last}
	case *ProcSubst:
		lists = [][]Comment{p.Last}
	case *CaseClause:
		lists = [][]Comment{p.Last}
	case *CaseItem:
		lists = [][]Comment{p.Comments, p.Last}
	case *ArrayExpr:
		lists = [][]Comment{p.Last}
	case *ArrayElem:
		lists = [][]Comment{p.Comments}
	}
	for _, l := range lists {
		for i := range l {
			if l[i].Hash == c.Hash && l[i].Text == c.Text {
				return true
			}
		}
	}
	return false
}
