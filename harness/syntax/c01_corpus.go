package syntax

// concrete skeleton programs; the byte 0x01 marks a hole filled by a
// symbolic byte. They cover constructs that need more than four bytes.
var verifCorpus = [...]string{
	"${a}\x01", "$a\x01", "${a}\x01b", "\"${a}\x01\"", "${a:-\x01}", "${a: -\x01}", "${a:\x01-b}", "${#a}\x01", "${a[1]}\x01", "$((a \x01 b))", "$((a - \x01b))", "$((a \x01= 1))", "$(( \x01a))",
	"(a &)\x01 b", "(a \x01); b", "{ a \x01 }; b", "{ { a & }\x01 }", "{ case a in b) c ;; esac\x01 }", "case a in b) c ;\x01 d) e ;; esac", "case \x01 in *) ;; esac",
	"if a; then b\x01 fi", "if a\x01 then b; else c; fi", "while a; do b\x01 done", "for i in a b\x01 do c; done", "for ((i=0;i<1;i++))\x01 do c; done", "until a; do b; done \x01 c",
	"a() { b\x01 }", "function a { b; }\x01", "a | b \x01 c", "a && b \x01| c", "a \x01& b", "! a \x01 b", "a >b \x01>c", "a <<EOF\nb\x01\nEOF\n", "a <<-EOF\n\tb\x01\n\tEOF\n", "a <<< b\x01c", "a 2>&1\x01",
	"[[ a \x01= b ]]", "[[ -n a \x01& b ]]", "[[ ! a\x01 ]]", "a=(b \x01 c)", "a=([b]=c\x01)", "a+=\x01b", "a[1]=\x01", "declare -a a=(\x01)", "export a=\x01b c", "let a\x01=1",
	"echo \"a\x01b\" 'c\x01d' $'e\x01f'", "echo a\\\x01b", "echo $(a\x01b)", "echo `a\x01b`", "echo $(a; \x01b)", "echo <(a\x01)", "echo a{b,\x01}", "echo ~\x01", "echo *\x01?", "echo ?(a\x01)",
	"# c\x01\na", "a # c\x01\nb", "a \\\n\x01b", "a;\x01\n\nb", "a\n\n\n\x01b", "a &\x01\nb", "{\n\ta\x01\n}", "(\n\ta\x01\n)", "a |\n\x01b", "a &&\n\x01b",
	// heredocs combined with operators, comments and other heredocs
	"a <<E | b\nx\x01\nE\n", "a <<E && b\nx\nE\n\x01", "a <<E |\x01#c\nE\nb", "a <<E &&#c\x01\nE\nb", "<<a <<b\na\nx\x01\nb\n", "a <<E <<F\nx\nE\ny\x01\nF\n", "a <<-E <<F\n\tx\n\tE\ny\x01\nF\n",
	"if a <<E\nx\nE\nthen b\x01 fi", "a <<E; b\nx\x01\nE\n", "( a <<E\nx\x01\nE\n)", "$(a <<E\nx\nE\n)\x01", "{ a <<E\nx\nE\n}\x01", "a <<E #c\x01\nx\nE\n", "a <<E\nx\nE\n#c\x01\nb", "a <<'E'\n$x\x01\nE\n", "a <<E\n$x\x01 ${y}\nE\n",
	"while a <<E\nx\nE\ndo b\x01 done", "a() { b <<E\nx\x01\nE\n}", "a <<E |\nx\nE\n\x01b", "a <<E\n\\\x01\nE\n",
	// comments next to operators and delimiters
	"a |#c\x01\nb", "a &&#c\n\x01b", "a | b #c\x01\n", "case a in #c\x01\nb) ;; esac", "case a in b) #c\x01\n;; esac", "case a in b) c ;; #d\x01\nesac", "if a; then #c\x01\nb; fi", "{ #c\x01\na; }", "( #c\x01\na )", "a=( #c\x01\nb )", "a && #c\n#d\x01\nb", "`a #c\x01`", "$(a #c\x01\n)",
	// nested parentheses and brackets broken over lines
	"( (a)\n\x01)", "((a)\x01\n)", "([[ a\n]]\x01)", "( ( a )\x01 )", "$( (a)\x01 )", "[[ a\n&& b\x01 ]]", "[[ (a\x01) ]]", "(a; (b)\x01)", "{ (a)\x01; }",
	// empty bodies, brace-named redirections, slices, declarations
	"{ \x01}", "( \x01)", "if a; then\x01 fi", "while a; do\x01 done", "a() {\x01 }", "case a in b)\x01 esac", "for i in\x01; do a; done",
	"{a\x01}>b", "{a[1\x01}<b", "a {b}>\x01c", "a {b\x01}<&-", "${a:\x01:2}", "${a::\x01}", "${a:1:\x01}", "${a[@]:\x01:1}", "${!a\x01}", "${a/b/\x01}", "${a//\x01/c}", "${a^\x01}", "${a@\x01}",
	"declare -\x01 a=b", "local a\x01 b=c", "readonly a=(b\x01)", "export -p\x01", "[[ a != \"$x\"\x01 ]]", "[[ a == \x01\"$x\" ]]", "[[ $a =~ b\x01 ]]", "[ a \x01= b ]", "echo $((${a}\x01 + 1))", "echo $(($a\x01))", "a=$(($b\x01))",
	// several comments before and after statements, case items and array elements
	"a # b\x01\nc", "# a\n# b\x01\nc # d\n# e\n", "case a in\nb)\n\tc\n\t;;\n\t#d\n#e\x01\n\t#f\ng) ;;\nesac", "case a in\n#b\x01\n#c\nd) ;; #e\n#f\nesac", "a=(\n\tb # c\x01\n\t# d\n\t# e\n)", "a=(\n\t# b\n\t# c\x01\n\td\n)", "if a; then # b\x01\n\t# c\n\td\nfi # e", "{ # a\x01\n\tb # c\n\t# d\n}", "for i in a # b\x01\ndo c; done",
	"echo $((a[\x011]))", "echo $((a\x01b))", "echo $((a\x01\x01))", "let a[1]\x01=2", "((a[\x01]++))",
	"cat <<-EOF\n\t$(a |\n\tb\x01)\n\tEOF\n", "cat <<-EOF\n\t$(if a; then\n\tb\x01; fi)\n\tEOF\n", "cat <<-EOF\n\t${a:-$(b\x01 |\n\tc)}\n\tEOF\ncat <<-E2\n\t$(d |\n\te)\n\tE2\n",
	"${a,\x01}", "${a\x01,}", "${a^\x01b}", "${a\x01^}", "${a@\x01}", "${a\x01Q}",
	// empty quoted strings, unfinished arithmetic and case items (error recovery)
	"[[ -n \"\"\x01 ]]", "[[ \"\" != $x\x01 ]]", "[[ $x -eq \"\"\x01 ]]", "[ -z \"\"\x01 ]", "echo \"\"\x01 ''", "a=\"\"\x01", "${a:-\"\"\x01}", "[[ \"\"\x01 ]]",
	"<<$b[\x01\n", "<<$b[ar\x01\n$bar", "a=$((b c=d\x01", "foo=$(((1 2)\x01", "b+=$(((2 3)\x01", "case a in (\x01", "case $i in (#1) \x01", "a=$[b c=\x01", "if a; then b; elif c\x01 d; fi",
	"cat <<EOF\n$(a # x\x01\n)\nEOF\n# y\n", "cat <<EOF\n$(a #x\n)\nEOF\nb # y\x01\n", "{\n\tcat <<EOF\n$(a #x\x01\n)\nEOF\n\t# y\n}", "foo | cat <<EOF # c\x01\nbody\nEOF\n", "foo && cat <<EOF # c\x01\nbody\nEOF\n", "cat <<EOF # c\x01\nbody\nEOF\n",
	"coproc a { b\x01 }", "time a\x01 b", "select i in a\x01 do b; done", "a() ( b\x01 )", "eval \"a\x01\"", "trap 'a\x01' EXIT", "((a\x01))", "(( a ? b \x01 c ))", "$[a\x01b]",
}

// Verif_c01_corpus: the round trip on concrete programs with one symbolic
// byte and all printer options symbolic.
func Verif_c01_corpus() {
	mode := verifParam("mode")
	lang := verifLang(verifParam("lang"))
	k := verifParam("prog")
	if k < 0 {
		k = verifChoice("prog", len(verifCorpus))
	}
	src := []byte(verifCorpus[k])
	hole := verifByte("hole")
	if verifParam("alpha") == 1 {
		verifAssume(verifInSet(hole, verifSigmaSh))
	}
	for i := range src {
		if src[i] == 1 {
			src[i] = hole
		}
	}
	verifRoundTrip(src, lang, mode)
}

// Verif_c05_corpus: the comment-preservation oracle on the corpus programs
// with one symbolic byte and symbolic printer options.
func Verif_c05_corpus() {
	lang := verifLang(verifParam("lang"))
	k := verifParam("prog")
	if k < 0 {
		k = verifChoice("prog", len(verifCorpus))
	}
	src := []byte(verifCorpus[k])
	hole := verifByte("hole")
	if verifParam("alpha") == 1 {
		verifAssume(verifInSet(hole, verifSigmaSh))
	}
	for i := range src {
		if src[i] == 1 {
			src[i] = hole
		}
	}
	verifCommentsKept(src, lang)
}
