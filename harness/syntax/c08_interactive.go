package syntax

import (
	"bytes"
	"io"
)

// verifLineReader hands out the source one line per Read call, like a terminal.
type verifLineReader struct {
	src []byte
	pos int
}

func (r *verifLineReader) Read(p []byte) (int, error) {
	if r.pos >= len(r.src) {
		return 0, io.EOF
	}
	end := r.pos
	for end < len(r.src) && r.src[end] != '\n' {
		end++
	}
	if end < len(r.src) {
		end++
	}
	n := copy(p, r.src[r.pos:end])
	r.pos += n
	return n, nil
}

type verifCallback struct {
	incomplete bool
	failed     bool
	nstmts     int
	consumed   int
}

// verifInteractive feeds src line by line and returns the statements a shell
// following the documented pattern would run, and the trace of callbacks.
func verifInteractive(p *Parser, src []byte, stopAt int) (run []*Stmt, trace []verifCallback, firstErr error) {
	rd := &verifLineReader{src: src}
	for stmts, err := range p.InteractiveSeq(rd) {
		if len(trace) == stopAt {
			break // the consumer stops here
		}
		cb := verifCallback{incomplete: p.Incomplete(), failed: err != nil, nstmts: len(stmts), consumed: rd.pos}
		trace = append(trace, cb)
		if err != nil {
			firstErr = err
			break
		}
		if !cb.incomplete {
			run = append(run, stmts...)
		}
		if len(trace) > 2*len(src)+4 {
			verifAssert(false, "InteractiveSeq keeps calling back")
			break
		}
	}
	return
}

// Verif_c08_interactive: InteractiveSeq fed one line at a time yields the
// statements Parse returns, reports Incomplete only while the text given so
// far is an unfinished statement, and behaves the same on a parser that was
// used before on another (possibly failing) input.
func Verif_c08_interactive() {
	n, m := verifParam("n"), verifParam("m")
	lang := verifLang(verifParam("lang"))
	src := verifSrc(n)
	if verifParam("nl") != 0 {
		src = append(src, '\n')
	}
	fresh := NewParser(Variant(lang))
	run, trace, ierr := verifInteractive(fresh, src, -1)
	f, perr := NewParser(Variant(lang)).Parse(bytes.NewReader(src), "")
	verifAssert((perr == nil) == (ierr == nil), "InteractiveSeq and Parse disagree on acceptance")
	if perr == nil && ierr == nil {
		verifAssert(len(run) == len(f.Stmts), "InteractiveSeq yields a different number of statements than Parse")
		verifAssert(verifTreeEq(run, f.Stmts, 4), "InteractiveSeq statements differ from Parse")
	}
	for _, cb := range trace {
		if cb.incomplete && !cb.failed {
			// unfinished: the lines so far end in a line continuation, or
			// parsing them alone stops at an unexpected end of input
			pre := src[:cb.consumed]
			nbs := 0
			for k := len(pre) - 2; k >= 0 && len(pre) > 0 && pre[len(pre)-1] == '\n' && pre[k] == '\\'; k-- {
				nbs++
			}
			if nbs%2 == 1 {
				continue
			}
			_, e := NewParser(Variant(lang)).Parse(bytes.NewReader(pre), "")
			verifAssert(e != nil && IsIncomplete(e), "Incomplete reported although the lines given so far are not an unfinished statement")
		}
	}
	// a consumer that stops at the k-th callback is not called again
	if len(trace) > 0 {
		k := verifChoice("stopAt", len(trace))
		ok := verifNoPanic(func() {
			_, t3, _ := verifInteractive(NewParser(Variant(lang)), src, k)
			verifAssert(len(t3) == k, "InteractiveSeq called back after the consumer stopped")
		})
		verifAssert(ok, "InteractiveSeq panics when the consumer stops")
	}
	if m >= 0 {
		first := verifBytes("first", m)
		used := NewParser(Variant(lang))
		used.Parse(bytes.NewReader(first), "")
		run2, trace2, ierr2 := verifInteractive(used, src, -1)
		verifAssert((ierr == nil) == (ierr2 == nil), "reused parser: InteractiveSeq differs in error")
		verifAssert(len(trace) == len(trace2), "reused parser: InteractiveSeq calls back a different number of times")
		if len(trace) == len(trace2) {
			for i := range trace {
				verifAssert(trace[i] == trace2[i], "reused parser: InteractiveSeq callback differs (statements, error or Incomplete)")
			}
		}
		verifAssert(verifTreeEq(run, run2, 4), "reused parser: InteractiveSeq statements differ")
	}
	verifReach("end")
}
