package syntax

import (
	"bytes"
	"strings"
)

// verifAlpha maps a symbolic selector to a byte of the shell alphabet Σsh
// (used when param alpha=1); with alpha=0 all 256 byte values are allowed.
const verifSigmaSh = "ab10_ \t\n\\'\"$`{}()[]<>|&;#=+-*?!@%/:,.~^"

// verifSrc returns the source under test: n symbolic bytes, or for n < 0 one
// of the corpus skeletons (chosen symbolically) with its hole filled by a
// symbolic byte.
func verifSrc(n int) []byte {
	if n < 0 {
		src := []byte(verifCorpus[verifChoice("prog", len(verifCorpus))])
		hole := verifByte("hole")
		if verifParam("alpha") != 0 {
			verifAssume(verifInSet(hole, verifSigmaSh))
		}
		for i := range src {
			if src[i] == 1 {
				src[i] = hole
			}
		}
		return src
	}
	src := verifBytes("src", n)
	switch verifParam("alpha") {
	case 1:
		for _, b := range src {
			verifAssume(verifInSet(b, verifSigmaSh))
		}
	case 2: // Σsh plus exotic bytes
		for _, b := range src {
			verifAssume(verifInSet(b, verifSigmaSh+"\r\x00\xc3\xa9\xff"))
		}
	}
	return src
}

type verifOpts struct {
	indent                                                    uint
	binNext, swCase, spRedir, keepPad, fnNext, minify, single bool
	simplify                                                  bool
}

func verifPrinterOpts() verifOpts {
	var o verifOpts
	if verifParam("symopts") == 0 {
		return o
	}
	ind := verifByte("opt.indent")
	verifAssume(ind <= 8)
	o.indent = uint(ind)
	o.binNext = verifBool("opt.binNext")
	o.swCase = verifBool("opt.swCase")
	o.spRedir = verifBool("opt.spRedir")
	o.keepPad = verifBool("opt.keepPad")
	o.fnNext = verifBool("opt.fnNext")
	o.minify = verifBool("opt.minify")
	o.single = verifBool("opt.single")
	o.simplify = verifBool("opt.simplify")
	return o
}

func (o verifOpts) printer() *Printer {
	return NewPrinter(Indent(o.indent), BinaryNextLine(o.binNext), SwitchCaseIndent(o.swCase), SpaceRedirects(o.spRedir),
		KeepPadding(o.keepPad), FunctionNextLine(o.fnNext), Minify(o.minify), SingleLine(o.single))
}

// verifNorm applies to a tree exactly the cosmetic rewrites the printer documents.
func verifNorm(f *File) {
	Walk(f, func(n Node) bool {
		switch n := n.(type) {
		case *CmdSubst:
			n.Backquotes = false
		case *ArithmExp:
			n.Bracket = false
		case *ForClause:
			n.Braces = false
		case *Redirect:
			if n.Op == DashHdoc && n.Hdoc != nil {
				// <<- bodies are re-indented with tabs
				atStart := true
				for _, part := range n.Hdoc.Parts {
					l, ok := part.(*Lit)
					if !ok {
						atStart = false
						continue
					}
					out := make([]byte, 0, len(l.Value))
					for i := 0; i < len(l.Value); i++ {
						c := l.Value[i]
						if c == '\t' && atStart {
							continue
						}
						atStart = c == '\n'
						out = append(out, c)
					}
					l.Value = string(out)
				}
			}
		case *ParamExp:
			n.Short = false
		case *Lit:
			if strings.Contains(n.Value, "\\\n") {
				n.Value = strings.ReplaceAll(n.Value, "\\\n", "")
			}
			// a lone trailing backslash (only possible at EOF) is printed doubled
			k := len(n.Value)
			for k > 0 && n.Value[k-1] == '\\' {
				k--
			}
			if (len(n.Value)-k)%2 == 1 {
				n.Value += "\\"
			}
		}
		return true
	})
}

// verifC01Known marks the regions of listed known findings of the printer
// round trip (see /verif/known_findings.json); it returns true when the path
// lies in such a region and must be skipped.
func verifC01Known(src []byte, f *File, o verifOpts) bool {
	// backslash directly followed by CR or NUL: the lexer keeps the pair in the
	// literal, and the newline the printer writes after it turns it into a
	// line continuation.
	bsCR, bsNUL := false, false
	for i := 0; i+1 < len(src); i++ {
		if src[i] == '\\' && src[i+1] == '\r' {
			bsCR = true
		}
		if src[i] == '\\' && src[i+1] == 0 {
			bsNUL = true
		}
	}
	if verifKnown("C01-backslash-cr", bsCR) {
		return true
	}
	if verifKnown("C01-backslash-nul", bsNUL) {
		return true
	}
	// a comment whose text ends in a backslash swallows the newline after it
	commentCont, caseComments := false, false
	Walk(f, func(n Node) bool {
		switch n := n.(type) {
		case *Comment:
			if k := len(n.Text); k > 0 && (n.Text[k-1] == '\\' || k > 1 && n.Text[k-1] == '\n' && n.Text[k-2] == '\\') {
				commentCont = true
			}
		case *CaseClause:
			if len(n.Last) > 0 {
				caseComments = true
			}
			for _, it := range n.Items {
				if len(it.Comments) > 0 || len(it.Last) > 0 {
					caseComments = true
				}
			}
		}
		return true
	})
	if verifKnown("C09-comment-backslash-newline", commentCont) {
		return true
	}
	// SwitchCaseIndent: comments inside a case clause are re-indented on every pass
	if verifKnown("C02-case-comment-indent", caseComments && o.swCase) {
		return true
	}
	// a literal "$" glued to the word part that follows it
	joined := false
	Walk(f, func(n Node) bool {
		if w, ok := n.(*Word); ok {
			for i := 0; i+1 < len(w.Parts); i++ {
				if l, ok := w.Parts[i].(*Lit); ok && verifEndsInLoneDollar(l.Value) {
					joined = true
				}
			}
		}
		if dq, ok := n.(*DblQuoted); ok {
			for i := 0; i+1 < len(dq.Parts); i++ {
				if l, ok := dq.Parts[i].(*Lit); ok && verifEndsInLoneDollar(l.Value) {
					joined = true
				}
			}
		}
		return true
	})
	if verifParam("lang") == 4 && o.minify {
		Walk(f, func(n Node) bool {
			if w, ok := n.(*Word); ok && len(w.Parts) > 0 {
				if l, ok := w.Parts[len(w.Parts)-1].(*Lit); ok && verifEndsInLoneDollar(l.Value) {
					joined = true // zsh reads "$+" and "$#" as expansion prefixes
				}
			}
			return true
		})
	}
	if verifKnown("C01-dollar-joined", joined) {
		return true
	}
	// zsh: ">" followed by a word starting with "!" prints as ">!" (zsh's clobber operator)
	bang := false
	Walk(f, func(n Node) bool {
		if r, ok := n.(*Redirect); ok && r.Word != nil && len(r.Word.Parts) > 0 {
			if l, ok := r.Word.Parts[0].(*Lit); ok && len(l.Value) > 0 && l.Value[0] == '!' {
				switch r.Op {
				case RdrOut, AppOut, RdrAll, AppAll, DplOut:
					bang = true
				}
			}
		}
		return true
	})
	if verifKnown("C01-zsh-redir-bang", bang && verifParam("lang") == 4) {
		return true
	}
	hdocCont := verifHdocCont(f)
	if verifKnown("C01-heredoc-continuation-before-delimiter", hdocCont) {
		return true
	}
	// zsh-only short parameter expansion forms
	flagOrder, hashJoined, emptyParam := false, false, false
	Walk(f, func(n Node) bool {
		switch n := n.(type) {
		case *ParamExp:
			if n.Short && n.Length && (n.Split != 0 || n.GlobSubst != 0 || n.RcExpand != 0) {
				flagOrder = true
			}
			if n.Param == nil && n.NestedParam == nil {
				emptyParam = true
			}
		case *Word:
			for i := 0; i+1 < len(n.Parts); i++ {
				if pe, ok := n.Parts[i].(*ParamExp); ok && pe.Short && pe.Param != nil && pe.Param.Value == "#" {
					hashJoined = true
				}
			}
		}
		return true
	})
	if verifKnown("C01-zsh-flag-order", flagOrder && verifParam("lang") == 4) {
		return true
	}
	if verifKnown("C01-zsh-hash-joined", hashJoined && verifParam("lang") == 4) {
		return true
	}
	if verifKnown("C01-zsh-empty-param", emptyParam && verifParam("lang") == 4) {
		return true
	}
	return false
}

func verifEndsInLoneDollar(s string) bool {
	if len(s) == 0 || s[len(s)-1] != '$' {
		return false
	}
	k := len(s) - 1
	nb := 0
	for k > 0 && s[k-1] == '\\' {
		k--
		nb++
	}
	return nb%2 == 0
}

// Verif_c01_roundtrip: parse -> print(opts) -> parse gives the same tree
// (mode&1), and print is idempotent (mode&2).
func Verif_c01_roundtrip() {
	n := verifParam("n")
	mode := verifParam("mode")
	lang := verifLang(verifParam("lang"))
	src := verifSrc(n)
	verifRoundTrip(src, lang, mode)
}

func verifRoundTrip(src []byte, lang LangVariant, mode int) {
	o := verifPrinterOpts()
	if mode&2 != 0 && mode&1 == 0 {
		verifAssume(!o.keepPad)
	}
	parser := NewParser(Variant(lang), KeepComments(true))
	f, err := parser.Parse(bytes.NewReader(src), "")
	verifAssume(err == nil)
	if verifC01Known(src, f, o) {
		return
	}
	if o.simplify {
		Simplify(f)
	}
	var out bytes.Buffer
	perr := o.printer().Print(&out, f)
	if o.minify && o.single {
		verifAssert(perr != nil, "Minify+SingleLine must be refused")
		verifReach("end")
		return
	}
	verifAssert(perr == nil, "Print failed on a parsed tree")
	outs := out.String()
	verifObserve("printed", outs)
	f2, err2 := NewParser(Variant(lang), KeepComments(true)).Parse(strings.NewReader(outs), "")
	if mode&1 != 0 {
		verifAssert(err2 == nil, "printed output does not parse again")
	}
	verifAssume(err2 == nil)
	if mode&2 != 0 && !o.keepPad {
		var out2 bytes.Buffer
		perr2 := o.printer().Print(&out2, f2)
		verifAssert(perr2 == nil, "Print failed on the re-parsed tree")
		if out2.String() != outs && verifKnown("C02-closing-paren-on-later-line", verifLateClose(f2)) {
			return
		}
		if out2.String() != outs && verifKnown("C02-spaced-closing-parens-across-lines", verifSpacedClose(f2, outs)) {
			return
		}
		verifAssert(out2.String() == outs, "formatting is not idempotent")
	}
	if mode&1 != 0 {
		verifNorm(f)
		verifNorm(f2)
		verifAssert(verifTreeEq(f, f2, 1|2|4), "re-parsed tree differs from the original tree")
	}
	verifReach("end")
}

func verifOnlyTabs(s string) bool {
	for i := 0; i < len(s); i++ {
		if s[i] != '\t' {
			return false
		}
	}
	return true
}

// verifLateClose: the tree (parsed from printed output) has a subshell, block
// or command/process substitution whose first statement starts on the line of
// the opening token while the closing token is on a later line than the end of
// its last statement or comment: a layout the printer itself rewrites.
func verifLateClose(f *File) bool {
	found := false
	check := func(open, close Pos, stmts []*Stmt, last []Comment) {
		if len(stmts) == 0 || !close.IsValid() {
			return
		}
		end := stmts[len(stmts)-1].End()
		for _, c := range stmts[len(stmts)-1].Comments {
			if c.End().After(end) {
				end = c.End()
			}
		}
		for _, c := range last {
			if c.End().After(end) {
				end = c.End()
			}
		}
		if stmts[0].Pos().Line() == open.Line() && close.Line() > end.Line() {
			found = true
		}
	}
	Walk(f, func(n Node) bool {
		switch n := n.(type) {
		case *Subshell:
			check(n.Lparen, n.Rparen, n.Stmts, n.Last)
		case *Block:
			check(n.Lbrace, n.Rbrace, n.Stmts, n.Last)
		case *CmdSubst:
			check(n.Left, n.Right, n.Stmts, n.Last)
		case *ProcSubst:
			check(n.OpPos, n.Rparen, n.Stmts, n.Last)
		}
		return true
	})
	return found
}

// verifHdocCont: a heredoc body whose last line ends in a backslash (region of
// the known finding C01-heredoc-continuation-before-delimiter).
func verifHdocCont(f *File) bool {
	hdocCont := false
	Walk(f, func(n Node) bool {
		if r, ok := n.(*Redirect); ok && r.Hdoc != nil && len(r.Hdoc.Parts) > 0 {
			if l, ok := r.Hdoc.Parts[len(r.Hdoc.Parts)-1].(*Lit); ok {
				v := l.Value
				// an escaped newline splits the body into adjacent literals;
				// a last literal of tabs only is what precedes the delimiter
				if np := len(r.Hdoc.Parts); np >= 2 {
					if _, ok := r.Hdoc.Parts[np-2].(*Lit); ok && verifOnlyTabs(v) {
						hdocCont = true
					}
				}
				if k := len(v); k >= 2 && v[k-1] == '\n' && v[k-2] == '\\' {
					hdocCont = true
				}
				if k := len(v); k >= 1 && v[k-1] == '\\' {
					hdocCont = true
				}
			}
		}
		return true
	})
	return hdocCont
}

// verifSpacedClose: the printed text closes nested parentheses as ") )" although
// they were opened on an earlier line: the space mirrors "( (" only for
// one-line layouts, and the printer decided from source lines.
func verifSpacedClose(f *File, outs string) bool {
	found := false
	check := func(open, close Pos) {
		off := int(close.Offset())
		if open.Line() != close.Line() && off >= 2 && off < len(outs) && outs[off-1] == ' ' && outs[off-2] == ')' {
			found = true
		}
		// the converse: "))" on the line of the opening parentheses
		if open.Line() == close.Line() && off >= 1 && off < len(outs) && outs[off-1] == ')' {
			found = true
		}
	}
	Walk(f, func(n Node) bool {
		switch n := n.(type) {
		case *Subshell:
			check(n.Lparen, n.Rparen)
		case *CmdSubst:
			check(n.Left, n.Right)
		}
		return true
	})
	return found
}
