package syntax

import "bytes"

func verifLang(k int) LangVariant {
	switch k {
	case 0:
		return LangBash
	case 1:
		return LangPOSIX
	case 2:
		return LangMirBSDKorn
	case 3:
		return LangBats
	default:
		return LangZsh
	}
}

// Verif_c06_parse: Parse never panics on any n-byte input.
func Verif_c06_parse() {
	n := verifParam("n")
	lang := verifLang(verifParam("lang"))
	src := verifBytes("src", n)
	p := NewParser(Variant(lang), KeepComments(verifParam("comments") != 0))
	var f *File
	var err error
	ok := verifNoPanic(func() {
		f, err = p.Parse(bytes.NewReader(src), "")
	})
	verifAssert(ok, "Parse panicked")
	verifAssert((f != nil) != (err != nil) || f != nil, "Parse returned neither tree nor error")
	verifReach("end")
}
