package syntax

import "bytes"

func verifLang(k int) LangVariant {
	switch k {
	case 0:
		return LangBash
	case 1:
		return LangPOSIX
	case 2:
		return LangMirBSDKorn
	case 3:
		return LangBats
	default:
		return LangZsh
	}
}

// Verif_c06_parse: no entry point panics or runs away on any n-byte input;
// printing, simplifying and walking whatever tree comes back never panics.
func Verif_c06_parse() {
	n := verifParam("n")
	lang := verifLang(verifParam("lang"))
	entry := verifParam("entry")
	src := verifSrc(n)
	opts := []ParserOption{Variant(lang), KeepComments(verifBool("keepComments"))}
	if verifParam("recover") != 0 {
		opts = append(opts, RecoverErrors(1+verifChoice("recoverMax", 3)))
	}
	if sn := verifParam("stopat"); sn > 0 {
		stop := verifBytes("stop", sn)
		for _, b := range stop {
			verifAssume(b != ' ' && b != '\t' && b != '\n' && b != '\r' && b != 0)
		}
		opts = append(opts, StopAt(string(stop)))
	}
	p := NewParser(opts...)
	var root Node
	var words []*Word
	s0 := verifSteps()
	ok := verifNoPanic(func() {
		switch entry {
		case 0:
			f, _ := p.Parse(bytes.NewReader(src), "")
			if f != nil {
				root = f
			}
		case 1:
			for range p.StmtsSeq(bytes.NewReader(src)) {
			}
		case 2:
			for w, err := range p.WordsSeq(bytes.NewReader(src)) {
				if err == nil {
					words = append(words, w)
				}
			}
		case 3:
			for range p.InteractiveSeq(bytes.NewReader(src)) {
			}
		case 4:
			w, err := p.Document(bytes.NewReader(src))
			if w != nil && err == nil {
				words = append(words, w)
			}
		case 5:
			x, err := p.Arithmetic(bytes.NewReader(src))
			if x != nil && err == nil { // a partial tree returned next to an error is not a result
				root = x
			}
		}
	})
	verifAssert(ok, "parser entry point panicked")
	steps := verifSteps() - s0
	verifAssert(steps <= 60000+40000*(len(src)+1), "parsing took more than the linear step bound")
	// whatever came back can be printed, simplified and walked
	if f, isFile := root.(*File); isFile {
		o := verifPrinterOpts()
		ok = verifNoPanic(func() {
			Walk(f, func(Node) bool { return true })
			var out bytes.Buffer
			o.printer().Print(&out, f)
			Simplify(f)
			out.Reset()
			o.printer().Print(&out, f)
		})
		verifAssert(ok, "Walk/Print/Simplify panicked on a parsed tree")
		verifReach("printed")
	} else if root != nil {
		ok = verifNoPanic(func() { Walk(root, func(Node) bool { return true }) })
		verifAssert(ok, "Walk panicked on an arithmetic expression")
	}
	for _, w := range words {
		ok = verifNoPanic(func() {
			var out bytes.Buffer
			NewPrinter().Print(&out, w)
			Walk(w, func(Node) bool { return true })
		})
		verifAssert(ok, "Print/Walk panicked on a word")
	}
	verifReach("end")
}
