package syntax

import (
	"bytes"
	"io"
	"strings"
	"unicode"

	"mvdan.cc/sh/v3/fileutil"
)

// ---------------------------------------------------------------- C05

func verifComments(f *File) []Comment {
	var cs []Comment
	Walk(f, func(n Node) bool {
		if c, ok := n.(*Comment); ok {
			cs = append(cs, *c)
		}
		return true
	})
	// source order
	for i := 1; i < len(cs); i++ {
		for j := i; j > 0 && cs[j].Hash.Offset() < cs[j-1].Hash.Offset(); j-- {
			cs[j], cs[j-1] = cs[j-1], cs[j]
		}
	}
	return cs
}

func verifTrimRight(s string) string { return strings.TrimRightFunc(s, unicode.IsSpace) }

// Verif_c05_comments: formatting keeps every comment (Minify: only a shebang).
func Verif_c05_comments() {
	n := verifParam("n")
	lang := verifLang(verifParam("lang"))
	src := verifSrc(n)
	switch verifParam("prefix") {
	case 1:
		src = append([]byte("#!/bin/sh\n"), src...)
	case 2:
		src = append([]byte("a # c\n"), src...)
	case 3:
		src = append([]byte("#!/usr/bin/env bash\n# d\n"), src...)
	}
	verifCommentsKept(src, lang)
}

// verifCommentsKept is the C05 oracle on one source text with symbolic printer options.
func verifCommentsKept(src []byte, lang LangVariant) {
	o := verifPrinterOpts()
	f, err := NewParser(Variant(lang), KeepComments(true)).Parse(bytes.NewReader(src), "")
	verifAssume(err == nil)
	verifAssume(!(o.minify && o.single))
	if verifC01Known(src, f, o) {
		return
	}
	// SingleLine: a comment inside a here-document body is printed after the
	// comments of the statements joined onto the heredoc's line
	hdocComment := false
	Walk(f, func(n Node) bool {
		if r, ok := n.(*Redirect); ok && r.Hdoc != nil {
			Walk(r.Hdoc, func(m Node) bool {
				if _, isCom := m.(*Comment); isCom {
					hdocComment = true
				}
				return true
			})
		}
		return true
	})
	if verifKnown("C05-singleline-heredoc-comment-order", o.single && hdocComment) {
		return
	}
	before := verifComments(f)
	if o.simplify {
		Simplify(f)
	}
	var out bytes.Buffer
	verifAssume(o.printer().Print(&out, f) == nil)
	f2, err2 := NewParser(Variant(lang), KeepComments(true)).Parse(bytes.NewReader(out.Bytes()), "")
	verifAssume(err2 == nil) // re-parse failures are C01's subject
	after := verifComments(f2)
	if o.minify {
		// "shebang" as the repository defines it (fileutil.Shebang: #!/bin/sh, #!/usr/bin/env bash, ...)
		keep := len(before) > 0 && before[0].Hash.Line() == 1 && before[0].Hash.Col() == 1 && fileutil.Shebang([]byte("#"+before[0].Text)) != ""
		if keep {
			verifAssert(len(after) >= 1 && verifTrimRight(after[0].Text) == verifTrimRight(before[0].Text), "Minify dropped the shebang")
		}
		if !keep {
			verifAssert(len(after) == 0, "Minify kept a comment that is not a shebang on the first line")
		}
		verifAssert(len(after) <= 1, "Minify kept a comment other than the shebang")
		verifReach("end")
		return
	}
	verifAssert(len(after) == len(before), "number of comments changed by formatting")
	for i := range before {
		if i < len(after) {
			verifAssert(verifTrimRight(after[i].Text) == verifTrimRight(before[i].Text), "comment text changed by formatting")
		}
	}
	if len(before) > 0 {
		verifReach("has-comment")
	}
	verifReach("end")
}

// ---------------------------------------------------------------- C07

type verifChunkReader struct {
	data    []byte
	pos     int
	k       int
	eofWith bool
}

var verifChunkIDs = [...]string{"chunk0", "chunk1", "chunk2", "chunk3", "chunk4", "chunk5", "chunk6", "chunk7", "chunk8", "chunk9"}

func (r *verifChunkReader) Read(p []byte) (int, error) {
	rem := len(r.data) - r.pos
	if rem == 0 {
		return 0, io.EOF
	}
	max := rem
	if len(p) < max {
		max = len(p)
	}
	k := 1
	if max > 1 && r.k < len(verifChunkIDs) {
		k = 1 + verifChoice(verifChunkIDs[r.k], max)
	}
	r.k++
	copy(p, r.data[r.pos:r.pos+k])
	r.pos += k
	if r.pos == len(r.data) && r.eofWith {
		return k, io.EOF
	}
	return k, nil
}

// Verif_c07_chunks: the tree (with positions) and the error do not depend on
// how the reader splits the input.
func Verif_c07_chunks() {
	n := verifParam("n")
	lang := verifLang(verifParam("lang"))
	src := verifSrc(n)
	pad := verifParam("pad") // concrete filler before the symbolic bytes, to straddle the 1 KiB buffer
	full := src
	if pad > 0 {
		full = append(bytes.Repeat([]byte("a"), pad), src...)
	}
	f1, err1 := NewParser(Variant(lang), KeepComments(true)).Parse(bytes.NewReader(full), "")
	r := &verifChunkReader{data: full, eofWith: verifBool("eofWithData")}
	if pad > 0 {
		// deliver the filler in one read of exactly pad bytes, then symbolic chunks
		r2 := &verifChunkReader{data: full[pad:], eofWith: r.eofWith}
		f2, err2 := NewParser(Variant(lang), KeepComments(true)).Parse(io.MultiReader(bytes.NewReader(full[:pad]), r2), "")
		verifAssert(verifTreeEq(err1, err2, 0), "error depends on read chunking")
		verifAssert(verifTreeEq(f1, f2, 0), "tree depends on read chunking")
		verifReach("end")
		return
	}
	f2, err2 := NewParser(Variant(lang), KeepComments(true)).Parse(r, "")
	verifAssert((err1 == nil) == (err2 == nil), "acceptance depends on read chunking")
	verifAssert(verifTreeEq(err1, err2, 0), "error depends on read chunking")
	verifAssert(verifTreeEq(f1, f2, 0), "tree depends on read chunking")
	verifReach("end")
}

// ---------------------------------------------------------------- C08

// Verif_c08_stmtsseq: StmtsSeq yields the statements Parse returns.
func Verif_c08_stmtsseq() {
	n := verifParam("n")
	lang := verifLang(verifParam("lang"))
	src := verifSrc(n)
	f, err := NewParser(Variant(lang)).Parse(bytes.NewReader(src), "")
	var got []*Stmt
	var gotErr error
	for s, e := range NewParser(Variant(lang)).StmtsSeq(bytes.NewReader(src)) {
		if e != nil {
			gotErr = e
			break
		}
		got = append(got, s)
	}
	verifAssert((err == nil) == (gotErr == nil), "StmtsSeq and Parse disagree on acceptance")
	if err == nil {
		verifAssert(len(got) == len(f.Stmts), "StmtsSeq yields a different number of statements")
		verifAssert(verifTreeEq(got, f.Stmts, 4), "StmtsSeq statements differ from Parse")
	} else {
		verifAssert(verifTreeEq(err, gotErr, 0), "StmtsSeq error differs from Parse")
	}
	verifReach("end")
}

var verifReuseFirsts = [...]string{
	"cat <<-EOF\n\t$(a |\n\tb)\n\tEOF\n", "cat <<-EOF\n\t$(if a; then\n\tb; fi)\n\tEOF\n", "foo &", "a # c", "if a; then\n\tb\nfi # d\n", "{ a\n\tb; }\ncase x in\ny) z ;;\nesac",
	"a |\n\tb &&\n\tc", "f() {\n\ta <<E\nx\nE\n}\n", "a=(\n\tb # c\n)", "echo 'unterminated", "$(", "a <<E", "((1 +", "a \\\n\tb \\\n\tc",
}

// Verif_c08_reuse: a parser/printer used before on another input (possibly
// erroring) behaves like a fresh one.
func Verif_c08_reuse() {
	n := verifParam("n")
	m := verifParam("m")
	lang := verifLang(verifParam("lang"))
	var first []byte
	if m == -2 {
		// a short list of earlier inputs that leave much printer and parser state behind
		first = []byte(verifReuseFirsts[verifChoice("prog0", len(verifReuseFirsts))])
	} else if m < 0 {
		// the earlier input is a corpus program too (its hole reads "a")
		first = []byte(verifCorpus[verifChoice("prog0", len(verifCorpus))])
		for i := range first {
			if first[i] == 1 {
				first[i] = 'a'
			}
		}
	} else {
		first = verifBytes("first", m)
	}
	src := verifSrc(n)
	p := NewParser(Variant(lang), KeepComments(true))
	f0, _ := p.Parse(bytes.NewReader(first), "")
	f1, err1 := p.Parse(bytes.NewReader(src), "")
	f2, err2 := NewParser(Variant(lang), KeepComments(true)).Parse(bytes.NewReader(src), "")
	verifAssert(verifTreeEq(err1, err2, 0), "reused parser gives a different error")
	verifAssert(verifTreeEq(f1, f2, 0), "reused parser gives a different tree")
	if err1 == nil {
		pr := NewPrinter()
		var b0, b1, b2 bytes.Buffer
		if f0 != nil {
			pr.Print(&b0, f0)
		}
		// a command node printed on its own right after the earlier input
		if len(f1.Stmts) > 0 && f1.Stmts[0].Cmd != nil {
			var c1, c2 bytes.Buffer
			ce1 := pr.Print(&c1, f1.Stmts[0].Cmd)
			ce2 := NewPrinter().Print(&c2, f2.Stmts[0].Cmd)
			verifAssert((ce1 == nil) == (ce2 == nil) && c1.String() == c2.String(), "reused printer prints a command node differently")
		}
		e1 := pr.Print(&b1, f1)
		e2 := NewPrinter().Print(&b2, f2)
		verifAssert((e1 == nil) == (e2 == nil), "reused printer differs in error")
		verifAssert(b1.String() == b2.String(), "reused printer gives different output")
	}
	verifReach("end")
}

// ---------------------------------------------------------------- C10

// verifLineCol computes the expected line/col of byte offset off in src.
func verifLineCol(src []byte, off int) (line, col int) {
	line, col = 1, 1
	for i := 0; i < off && i < len(src); i++ {
		if src[i] == '\n' {
			line++
			col = 1
		} else {
			col++
		}
	}
	return
}

// Verif_c10_errpos: parse errors point inside the input.
func Verif_c10_errpos() {
	n := verifParam("n")
	lang := verifLang(verifParam("lang"))
	src := verifSrc(n)
	_, err := NewParser(Variant(lang)).Parse(bytes.NewReader(src), "")
	verifAssume(err != nil)
	var pos Pos
	switch e := err.(type) {
	case ParseError:
		pos = e.Pos
	case LangError:
		pos = e.Pos
	default:
		verifAssert(false, "parse error of unexpected type")
	}
	verifAssert(pos.IsValid(), "error position is not valid")
	verifAssert(int(pos.Offset()) <= len(src), "error offset beyond the input")
	verifReach("end")
}

// Verif_c10_prefix: every line-boundary prefix of a valid program parses or
// is reported incomplete.
func Verif_c10_prefix() {
	n := verifParam("n")
	lang := verifLang(verifParam("lang"))
	src := verifSrc(n)
	_, err := NewParser(Variant(lang)).Parse(bytes.NewReader(src), "")
	verifAssume(err == nil)
	for i := 0; i < len(src)-1; i++ {
		if src[i] == '\n' {
			// a newline taken by a line continuation does not end a line
			nbs := 0
			for k := i - 1; k >= 0 && src[k] == '\\'; k-- {
				nbs++
			}
			if nbs%2 == 1 {
				continue
			}
			_, perr := NewParser(Variant(lang)).Parse(bytes.NewReader(src[:i+1]), "")
			verifAssert(perr == nil || IsIncomplete(perr), "prefix cut at a newline fails without being incomplete")
			verifReach("cut")
		}
	}
	verifReach("end")
}

// ---------------------------------------------------------------- C11

func verifBashOnly(f *File) string {
	bad := ""
	Walk(f, func(n Node) bool {
		switch n := n.(type) {
		case *TestClause:
			bad = "TestClause"
		case *ArithmCmd:
			bad = "ArithmCmd"
		case *LetClause:
			bad = "LetClause"
		case *DeclClause:
			bad = "DeclClause"
		case *CoprocClause:
			bad = "CoprocClause"
		case *ProcSubst:
			bad = "ProcSubst"
		case *ExtGlob:
			bad = "ExtGlob"
		case *ArrayExpr:
			bad = "ArrayExpr"
		case *SglQuoted:
			if n.Dollar {
				bad = "$'' string"
			}
		case *DblQuoted:
			if n.Dollar {
				bad = `$"" string`
			}
		case *Assign:
			if n.Index != nil || n.Append || n.Array != nil {
				bad = "array/append assignment"
			}
		case *ParamExp:
			if n.Excl || n.Index != nil || n.Slice != nil || n.Repl != nil || n.Names != 0 || n.Width || n.IsSet {
				bad = "bash parameter expansion"
			}
			if n.Exp != nil {
				switch n.Exp.Op {
				case UpperFirst, UpperAll, LowerFirst, LowerAll, OtherParamOps:
					bad = "bash parameter expansion operator"
				}
			}
		case *Redirect:
			switch n.Op {
			case RdrAll, AppAll, WordHdoc:
				bad = "bash redirect"
			}
		case *FuncDecl:
			if n.RsrvWord {
				bad = "function keyword"
			}
		case *CStyleLoop:
			bad = "c-style for"
		case *ForClause:
			if n.Select {
				bad = "select"
			}
		case *CaseItem:
			if n.Op != Break {
				bad = ";& or ;;&"
			}
		}
		return true
	})
	return bad
}

// Verif_c11_posix: a program accepted in POSIX mode has no bash-only node.
func Verif_c11_posix() {
	n := verifParam("n")
	src := verifSrc(n)
	f, err := NewParser(Variant(LangPOSIX)).Parse(bytes.NewReader(src), "")
	verifAssume(err == nil)
	bad := verifBashOnly(f)
	verifAssert(bad == "", "POSIX mode accepted a non-POSIX construct")
	verifReach("end")
}

// Verif_c11_bats: everything Bash accepts, Bats accepts with the same tree;
// error recovery does not change the parse of valid input.
func Verif_c11_bats() {
	n := verifParam("n")
	src := verifSrc(n)
	f, err := NewParser(Variant(LangBash), KeepComments(true)).Parse(bytes.NewReader(src), "")
	verifAssume(err == nil)
	f2, err2 := NewParser(Variant(LangBats), KeepComments(true)).Parse(bytes.NewReader(src), "")
	verifAssert(err2 == nil, "Bats rejects a program Bash accepts")
	if err2 == nil {
		verifAssert(verifTreeEq(f, f2, 0), "Bats tree differs from the Bash tree")
	}
	k := 1 + verifChoice("recover", 3)
	f3, err3 := NewParser(Variant(LangBash), KeepComments(true), RecoverErrors(k)).Parse(bytes.NewReader(src), "")
	verifAssert(err3 == nil, "RecoverErrors rejects a valid program")
	if err3 == nil {
		verifAssert(verifTreeEq(f, f3, 0), "RecoverErrors changes the tree of a valid program")
	}
	verifReach("end")
}

// Verif_c11_recover: in every language variant, enabling error recovery does
// not change how a valid program parses.
func Verif_c11_recover() {
	n := verifParam("n")
	lang := verifLang(verifParam("lang"))
	src := verifSrc(n)
	f, err := NewParser(Variant(lang), KeepComments(true)).Parse(bytes.NewReader(src), "")
	verifAssume(err == nil)
	k := 1 + verifChoice("recover", 3)
	f3, err3 := NewParser(Variant(lang), KeepComments(true), RecoverErrors(k)).Parse(bytes.NewReader(src), "")
	verifAssert(err3 == nil, "RecoverErrors rejects a valid program")
	if err3 == nil {
		verifAssert(verifTreeEq(f, f3, 0), "RecoverErrors changes the tree of a valid program")
	}
	verifReach("end")
}
