package syntax

import "bytes"

// verifUnignored removes from a source range what the lexer documents as
// ignored inside literals: NUL bytes, escaped newlines and CR before LF.
func verifUnignored(s []byte) []byte {
	out := make([]byte, 0, len(s))
	for i := 0; i < len(s); i++ {
		switch {
		case s[i] == 0:
		case s[i] == '\\' && i+1 < len(s) && s[i+1] == '\n':
			i++
		case s[i] == '\\' && i+2 < len(s) && s[i+1] == '\r' && s[i+2] == '\n':
			i += 2
		case s[i] == '\r' && i+1 < len(s) && s[i+1] == '\n':
		default:
			out = append(out, s[i])
		}
	}
	return out
}

func verifAt(src []byte, pos Pos, text string, what string) {
	if !pos.IsValid() {
		return
	}
	off := int(pos.Offset())
	verifAssert(off+len(text) <= len(src), what+": position beyond the input")
	if off+len(text) <= len(src) {
		// the token may be interleaved with bytes the lexer ignores (a NUL
		// inside "<&" for instance): compare what remains of the source
		// from the position on
		rest := verifUnignored(src[off:])
		verifAssert(len(rest) >= len(text) && string(rest[:len(text)]) == text && (len(text) == 0 || src[off] == text[0]), what+": position does not point at its text")
	}
}

func verifPosOK(src []byte, p Pos, what string) {
	if !p.IsValid() {
		return
	}
	off := int(p.Offset())
	verifAssert(off <= len(src), what+": offset beyond the input")
	if off <= len(src) {
		line, col := verifLineCol(src, off)
		verifAssert(int(p.Line()) == line, what+": line does not match the offset")
		verifAssert(int(p.Col()) == col, what+": column does not match the offset")
	}
}

// Verif_c09_positions: positions of a parsed tree describe the source.
func Verif_c09_positions() {
	n := verifParam("n")
	lang := verifLang(verifParam("lang"))
	src := verifSrc(n)
	f, err := NewParser(Variant(lang), KeepComments(true)).Parse(bytes.NewReader(src), "")
	verifAssume(err == nil)
	hasBquote := bytes.IndexByte(src, '`') >= 0
	// listed known findings (regions)
	comBs := false
	for i := 0; i+1 < len(src); i++ {
		if src[i] == '\\' && (src[i+1] == '\n' || src[i+1] == '\r') && bytes.IndexByte(src[:i], '#') >= 0 {
			comBs = true
		}
	}
	if verifKnown("C09-comment-backslash-newline", comBs) {
		return
	}
	if verifKnown("C09-zsh-nul-in-braces", verifParam("lang") == 4 && bytes.IndexByte(src, 0) >= 0 && bytes.IndexByte(src, '{') >= 0 && bytes.IndexByte(src, '}') >= 0) {
		return
	}
	if verifKnown("C01-heredoc-continuation-before-delimiter", verifHdocCont(f)) {
		return
	}
	if verifKnown("C09-backslash-crlf-column", bytes.Contains(src, []byte("\\\r\n"))) {
		return
	}
	// a one-character special or positional parameter directly followed by a line continuation
	specCont := false
	for i := 0; i+3 < len(src); i++ {
		if c := src[i+1]; src[i] == '$' && src[i+2] == '\\' && src[i+3] == '\n' &&
			!(c == '_' || c >= 'a' && c <= 'z' || c >= 'A' && c <= 'Z') {
			specCont = true
		}
	}
	if verifKnown("C09-special-param-before-continuation", specCont) {
		return
	}
	// a continuation between "$" and the name (see C25)
	dollarCont := false
	for i := 0; i+2 < len(src); i++ {
		if src[i] == '$' && src[i+1] == '\\' && src[i+2] == '\n' {
			dollarCont = true
		}
	}
	if verifKnown("C25-continuation-after-dollar", dollarCont) {
		return
	}
	var stack []Node
	var lastStmtEnd []Pos
	Walk(f, func(nd Node) bool {
		if nd == nil {
			stack = stack[:len(stack)-1]
			lastStmtEnd = lastStmtEnd[:len(lastStmtEnd)-1]
			return true
		}
		pos, end := nd.Pos(), nd.End()
		if verifKnown("C09-end-before-pos", pos.IsValid() && end.IsValid() && pos.After(end)) {
			return false
		}
		verifAssert(!(pos.IsValid() && end.IsValid() && pos.After(end)), "node starts after its end")
		verifPosOK(src, pos, "Pos")
		if _, isCom := nd.(*Comment); !isCom {
			verifPosOK(src, end, "End")
		}
		if len(stack) > 0 {
			if _, isCom := nd.(*Comment); !isCom {
				par := stack[len(stack)-1]
				if _, isFile := par.(*File); !isFile && pos.IsValid() && end.IsValid() && par.Pos().IsValid() && par.End().IsValid() {
					verifAssert(!par.Pos().After(pos), "child starts before its parent")
					if end.After(par.End()) && verifKnown("C09-heredoc-body-after-parent-end", verifHasHdoc(nd)) {
						return false
					}
					verifAssert(!end.After(par.End()), "child ends after its parent")
				}
			}
		}
		switch x := nd.(type) {
		case *Stmt:
			if k := len(lastStmtEnd) - 1; k >= 0 {
				if lastStmtEnd[k].IsValid() && pos.IsValid() {
					verifAssert(!lastStmtEnd[k].After(pos), "statements out of source order")
				}
				lastStmtEnd[k] = end
			}
		case *Lit:
			if x.ValuePos.IsValid() && x.ValueEnd.IsValid() && !hasBquote {
				a, b := int(x.ValuePos.Offset()), int(x.ValueEnd.Offset())
				if a <= b && b <= len(src) {
					got := verifUnignored(src[a:b])
					verifAssert(string(got) == x.Value || len(got) != len(x.Value), "literal value differs from the source text at its position")
				}
			}
		case *SglQuoted:
			if x.Dollar {
				verifAt(src, x.Left, "$'", "SglQuoted.Left")
			} else {
				verifAt(src, x.Left, "'", "SglQuoted.Left")
			}
			verifAt(src, x.Right, "'", "SglQuoted.Right")
		case *DblQuoted:
			if x.Dollar {
				verifAt(src, x.Left, `$"`, "DblQuoted.Left")
			} else {
				verifAt(src, x.Left, `"`, "DblQuoted.Left")
			}
			if !hasBquote {
				verifAt(src, x.Right, `"`, "DblQuoted.Right")
			}
		case *Subshell:
			verifAt(src, x.Lparen, "(", "Subshell.Lparen")
			verifAt(src, x.Rparen, ")", "Subshell.Rparen")
		case *Block:
			verifAt(src, x.Lbrace, "{", "Block.Lbrace")
			verifAt(src, x.Rbrace, "}", "Block.Rbrace")
		case *ParamExp:
			if !x.Short || true {
				verifAt(src, x.Dollar, "$", "ParamExp.Dollar")
			}
		case *CmdSubst:
			if x.Backquotes {
				if !x.Left.IsValid() || src[x.Left.Offset()] != '\\' {
					verifAt(src, x.Left, "`", "CmdSubst.Left")
				}
			} else if !x.TempFile && !x.ReplyVar {
				verifAt(src, x.Left, "$(", "CmdSubst.Left")
				verifAt(src, x.Right, ")", "CmdSubst.Right")
			}
		case *BinaryCmd:
			verifAt(src, x.OpPos, x.Op.String(), "BinaryCmd.OpPos")
		case *Redirect:
			op := x.Op.String()
			if off := int(x.OpPos.Offset()) + len(op) - 1; op[len(op)-1] == '|' && off < len(src) && src[off] == '!' {
				op = op[:len(op)-1] + "!" // zsh spells the clobber operators with ! as well
			}
			if verifParam("lang") == 4 && len(op) >= 3 {
				// zsh accepts several spellings of the three-character
				// operators (>>& for &>>, >&| and >&! for &>|, ...): the
				// position must point at a redirection character
				off := int(x.OpPos.Offset())
				verifAssert(off < len(src) && (src[off] == '>' || src[off] == '&' || src[off] == '<'), "Redirect.OpPos: position does not point at an operator")
			} else {
				verifAt(src, x.OpPos, op, "Redirect.OpPos")
			}
		case *IfClause:
			if x.Position.IsValid() && x.ThenPos.IsValid() {
				verifAt(src, x.ThenPos, "then", "IfClause.ThenPos")
			}
			verifAt(src, x.FiPos, "fi", "IfClause.FiPos")
		case *WhileClause:
			verifAt(src, x.DoPos, "do", "WhileClause.DoPos")
			verifAt(src, x.DonePos, "done", "WhileClause.DonePos")
		case *CaseClause:
			verifAt(src, x.Case, "case", "CaseClause.Case")
		case *ArithmExp:
			if x.Bracket {
				verifAt(src, x.Left, "$[", "ArithmExp.Left")
			} else {
				verifAt(src, x.Left, "$((", "ArithmExp.Left")
			}
		case *ProcSubst:
			verifAt(src, x.OpPos, x.Op.String(), "ProcSubst.OpPos")
			verifAt(src, x.Rparen, ")", "ProcSubst.Rparen")
		case *FuncDecl:
			if x.RsrvWord {
				verifAt(src, x.Position, "function", "FuncDecl.Position")
			}
		}
		stack = append(stack, nd)
		lastStmtEnd = append(lastStmtEnd, Pos{})
		return true
	})
	verifReach("end")
}

// verifHasHdoc: the subtree holds a redirection with a here-document body.
func verifHasHdoc(nd Node) bool {
	found := false
	Walk(nd, func(n Node) bool {
		if r, ok := n.(*Redirect); ok && r.Hdoc != nil {
			found = true
		}
		return !found
	})
	return found
}
