package shell

// ---- reference: a string expanded as here-document text ----

func refNameStart(c byte) bool { return c == '_' || c >= 'a' && c <= 'z' || c >= 'A' && c <= 'Z' }
func refNameChar(c byte) bool  { return refNameStart(c) || c >= '0' && c <= '9' }

func refPlain(w string) bool {
	for i := 0; i < len(w); i++ {
		switch w[i] {
		case '$', '\\', '"', '\'', '{', '}', '`':
			return false
		}
	}
	return true
}

// refBraceParam expands the inside of ${...}. kind: 0 ok, 1 error, 2 outside the reference.
func refBraceParam(body string, get func(string) string) (string, int) {
	length := false
	if len(body) > 1 && body[0] == '#' {
		length = true
		body = body[1:]
	}
	if body == "" || !refNameStart(body[0]) {
		return "", 2
	}
	k := 1
	for k < len(body) && refNameChar(body[k]) {
		k++
	}
	name, rest := body[:k], body[k:]
	val := get(name)
	if length {
		if rest != "" {
			return "", 2
		}
		n := len(val)
		if n >= 10 {
			return "", 2
		}
		return string(rune('0' + n)), 0
	}
	if rest == "" {
		return val, 0
	}
	colon := false
	if rest[0] == ':' {
		colon = true
		rest = rest[1:]
	}
	_ = colon // with "empty means unset" the colon forms behave like the plain ones
	if rest == "" {
		return "", 2
	}
	op, w := rest[0], rest[1:]
	if !refPlain(w) {
		return "", 2
	}
	switch op {
	case '-':
		if val == "" {
			return w, 0
		}
		return val, 0
	case '+':
		if val == "" {
			return "", 0
		}
		return w, 0
	}
	return "", 2
}

// refDocument: kind 0 ok, 1 error, 2 outside the reference.
func refDocument(s string, get func(string) string) (string, int) {
	// escaped newlines are removed while the body is read, before expansion
	var joined []byte
	for i := 0; i < len(s); i++ {
		if s[i] == '\\' && i+1 < len(s) {
			if s[i+1] == '\n' {
				i++
				continue
			}
			joined = append(joined, s[i], s[i+1])
			i++
			continue
		}
		joined = append(joined, s[i])
	}
	s = string(joined)
	var out []byte
	for i := 0; i < len(s); {
		c := s[i]
		switch {
		case c == '\\':
			if i+1 >= len(s) {
				return "", 2
			}
			switch n := s[i+1]; n {
			case '$', '`', '\\':
				out = append(out, n)
				i += 2
			case '\n':
				i += 2
			default:
				out = append(out, '\\')
				i++
			}
		case c == '`':
			return "", 2
		case c == '$':
			if i+1 >= len(s) {
				out = append(out, '$')
				i++
				break
			}
			n := s[i+1]
			switch {
			case n == '{':
				j := i + 2
				for j < len(s) && s[j] != '}' {
					if s[j] == '{' || s[j] == '$' || s[j] == '\\' || s[j] == '"' || s[j] == '\'' || s[j] == '\n' {
						return "", 2
					}
					j++
				}
				if j >= len(s) {
					return "", 1 // no closing brace
				}
				v, kind := refBraceParam(s[i+2:j], get)
				if kind != 0 {
					return "", kind
				}
				out = append(out, v...)
				i = j + 1
			case refNameStart(n):
				j := i + 1
				for j < len(s) && refNameChar(s[j]) {
					j++
				}
				out = append(out, get(s[i+1:j])...)
				i = j
			case n >= '0' && n <= '9', n == '?', n == '#', n == '@', n == '*', n == '!', n == '$', n == '-', n == '(', n == '[':
				return "", 2
			default:
				out = append(out, '$')
				i++
			}
		default:
			out = append(out, c)
			i++
		}
	}
	return string(out), 0
}

// ---- reference: a string expanded as command arguments (no globbing) ----

type refFielder struct {
	fields []string
	cur    []byte
	quoted bool // the current field has a quoted (possibly empty) part
}

func (f *refFielder) flush() {
	if len(f.cur) > 0 || f.quoted {
		f.fields = append(f.fields, string(f.cur))
	}
	f.cur, f.quoted = nil, false
}

func (f *refFielder) lit(s string) { f.cur = append(f.cur, s...) }

// split adds the value of an unquoted expansion.
func (f *refFielder) split(v string) {
	for i := 0; i < len(v); i++ {
		if v[i] == ' ' || v[i] == '\t' || v[i] == '\n' {
			f.flush()
			continue
		}
		f.cur = append(f.cur, v[i])
	}
}

// refDollar expands the "$..." at s[i]; it returns the value, the index after
// it and kind (0 ok, 1 error, 2 outside); plain reports a "$" that stays literal.
func refDollar(s string, i int, get func(string) string) (v string, next int, kind int) {
	if i+1 >= len(s) {
		return "$", i + 1, 0
	}
	n := s[i+1]
	switch {
	case n == '{':
		j := i + 2
		for j < len(s) && s[j] != '}' {
			if s[j] == '{' || s[j] == '$' || s[j] == '\\' || s[j] == '"' || s[j] == '\'' || s[j] == '\n' || s[j] == '~' {
				return "", 0, 2
			}
			j++
		}
		if j >= len(s) {
			return "", 0, 1
		}
		v, kind := refBraceParam(s[i+2:j], get)
		return v, j + 1, kind
	case refNameStart(n):
		j := i + 1
		for j < len(s) && refNameChar(s[j]) {
			j++
		}
		return get(s[i+1 : j]), j, 0
	case n >= '0' && n <= '9', n == '?', n == '#', n == '@', n == '*', n == '!', n == '$', n == '-', n == '(', n == '[':
		return "", 0, 2
	}
	return "$", i + 1, 0
}

// refFields: kind 0 ok, 1 error, 2 outside the reference.
func refFields(s string, get func(string) string) ([]string, int) {
	f := &refFielder{}
	wordStart := true
	// bash does not split a word that also holds a lone literal "$" ("$a$");
	// that quirk is left outside the reference
	lone, expanded := false, false
	for i := 0; i < len(s); {
		c := s[i]
		atStart := wordStart
		wordStart = false
		switch c {
		case ' ', '\t':
			f.flush()
			wordStart = true
			lone, expanded = false, false
			i++
		case '\n', ';', '&', '|', '<', '>', '(', ')', '`', '#', '=', ',', '*', '?', '[':
			return nil, 2
		case '~':
			if atStart {
				if i+1 >= len(s) || s[i+1] == '/' || s[i+1] == ' ' || s[i+1] == '\t' {
					f.lit(get("HOME"))
					f.quoted = true
					i++
					break
				}
				switch n := s[i+1]; {
				case refNameChar(n), n == '+', n == '-':
					return nil, 2
				}
			}
			f.lit("~")
			i++
		case '\\':
			if i+1 >= len(s) {
				return nil, 2
			}
			f.lit(s[i+1 : i+2])
			f.quoted = true
			i += 2
		case '\'':
			j := i + 1
			for j < len(s) && s[j] != '\'' {
				j++
			}
			if j >= len(s) {
				return nil, 1
			}
			f.lit(s[i+1 : j])
			f.quoted = true
			i = j + 1
		case '"':
			f.quoted = true
			j := i + 1
			for {
				if j >= len(s) {
					return nil, 1
				}
				if s[j] == '"' {
					break
				}
				switch s[j] {
				case '\\':
					if j+1 >= len(s) {
						return nil, 1
					}
					switch n := s[j+1]; n {
					case '$', '`', '"', '\\':
						f.lit(s[j+1 : j+2])
					case '\n':
					default:
						f.lit(s[j : j+2])
					}
					j += 2
				case '`':
					return nil, 2
				case '$':
					if j+1 < len(s) && (s[j+1] == '"' || s[j+1] == '\'') {
						f.lit("$")
						j++
						break
					}
					v, next, kind := refDollar(s, j, get)
					if kind != 0 {
						return nil, kind
					}
					f.lit(v)
					j = next
				default:
					f.lit(s[j : j+1])
					j++
				}
			}
			i = j + 1
		case '$':
			if i+1 < len(s) && s[i+1] == '"' {
				i++ // $"..." is a double-quoted string
				wordStart = atStart
				break
			}
			if i+1 < len(s) && s[i+1] == '\'' {
				j := i + 2
				for j < len(s) && s[j] != '\'' {
					if s[j] == '\\' {
						return nil, 2
					}
					j++
				}
				if j >= len(s) {
					return nil, 1
				}
				f.lit(s[i+2 : j])
				f.quoted = true
				i = j + 1
				break
			}
			v, next, kind := refDollar(s, i, get)
			if kind != 0 {
				return nil, kind
			}
			if v == "$" && next == i+1 {
				f.lit("$")
				lone = true
			} else {
				f.split(v)
				expanded = true
			}
			if lone && expanded {
				return nil, 2
			}
			i = next
		case '{', '}':
			f.lit(s[i : i+1])
			i++
		default:
			f.lit(s[i : i+1])
			i++
		}
	}
	f.flush()
	return f.fields, 0
}

// ---- harnesses ----

func verifEnv(va string) func(string) string {
	return func(name string) string {
		switch name {
		case "a":
			return va
		case "HOME":
			return "/h"
		}
		return ""
	}
}

func verifValue() string {
	va := verifString("a", verifParam("alen"))
	for i := 0; i < len(va); i++ {
		verifAssume(verifInSet(va[i], "xy *$\\"))
	}
	return va
}

// Verif_c25_expand: shell.Expand of every n-byte string, with $a holding an
// arbitrary alen-byte value, is what bash produces for it as here-document text.
func Verif_c25_expand() {
	s := verifString("s", verifParam("n"))
	for i := 0; i < len(s); i++ {
		verifAssume(verifInSet(s[i], "${}ab\\\"' \n:-+#"))
	}
	va := verifValue()
	want, kind := refDocument(s, verifEnv(va))
	verifAssume(kind != 2)
	got, err := Expand(s, verifEnv(va))
	// a line continuation inside the "$", "${" or "${#" that opens an expansion
	dollarCont := false
	for i := 0; i < len(s); i++ {
		if s[i] != '$' {
			continue
		}
		nbs := 0
		for k := i - 1; k >= 0 && s[k] == '\\'; k-- {
			nbs++
		}
		if nbs%2 != 0 {
			continue
		}
		j, stage, cont := i+1, 0, false
		for j < len(s) {
			if j+1 < len(s) && s[j] == '\\' && s[j+1] == '\n' {
				cont = true
				j += 2
				continue
			}
			if stage == 0 && s[j] == '{' {
				stage = 1
				j++
				continue
			}
			if stage == 1 && s[j] == '#' {
				stage = 2
				j++
				continue
			}
			break
		}
		if cont {
			dollarCont = true
		}
	}
	// a line continuation between the ':' and the operator character of ${a:-b}
	colonCont := false
	for i := 0; i+2 < len(s); i++ {
		if s[i] == ':' && s[i+1] == '\\' && s[i+2] == '\n' {
			for k := 0; k+1 < i; k++ {
				if s[k] == '$' && s[k+1] == '{' {
					colonCont = true
				}
			}
		}
	}
	if verifKnown("C25-continuation-after-colon", colonCont) {
		return
	}
	if verifKnown("C25-continuation-after-dollar", dollarCont) {
		return
	}
	if kind == 1 {
		verifAssert(err != nil, "Expand accepts a string bash rejects")
		verifReach("rejected")
		return
	}
	verifAssert(err == nil, "Expand fails on a string bash accepts")
	if err != nil {
		return
	}
	verifObserve("got", got)
	verifAssert(got == want, "Expand differs from bash's here-document expansion")
	verifReach("end")
}

// Verif_c25_fields: shell.Fields of every n-byte string is the argument list
// bash produces for it (globbing off).
func Verif_c25_fields() {
	s := verifString("s", verifParam("n"))
	for i := 0; i < len(s); i++ {
		verifAssume(verifInSet(s[i], "${}ab\\\"' ~/-"))
	}
	va := verifValue()
	want, kind := refFields(s, verifEnv(va))
	verifAssume(kind != 2)
	got, err := Fields(s, verifEnv(va))
	if kind == 1 {
		verifAssert(err != nil, "Fields accepts a string bash rejects")
		verifReach("rejected")
		return
	}
	verifAssert(err == nil, "Fields fails on a string bash accepts")
	if err != nil {
		return
	}
	verifAssert(len(got) == len(want), "Fields returns a different number of words than bash")
	if len(got) == len(want) {
		for i := range got {
			verifAssert(got[i] == want[i], "Fields returns a different word than bash")
		}
	}
	verifReach("end")
}
