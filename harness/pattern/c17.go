package pattern

import "regexp"

// ---- reference glob matcher after bash's sm_loop.c (C locale) ----

type refOpts struct {
	nocase   bool
	extglob  bool
	pathname bool // Filenames: wildcards do not match '/', leading dots need an explicit dot
	dotglob  bool
	// deviation switches (known findings)
	devTrailingBackslashErr bool // a trailing backslash makes the pattern match nothing
	devInvalidRangeErr      bool // a reversed range makes the whole pattern match nothing
	devBadClassErr          bool // an invalid [:class:] or a collating element makes the pattern match nothing
}

func refFold(c byte, o *refOpts) byte {
	if o.nocase && c >= 'A' && c <= 'Z' {
		return c + 32
	}
	return c
}

var refClassNames = [...]string{"alnum", "alpha", "ascii", "blank", "cntrl", "digit", "graph", "lower", "print", "punct", "space", "upper", "word", "xdigit"}

func refInClass(name string, c byte) bool {
	up := c >= 'A' && c <= 'Z'
	lo := c >= 'a' && c <= 'z'
	dg := c >= '0' && c <= '9'
	switch name {
	case "alnum":
		return up || lo || dg
	case "alpha":
		return up || lo
	case "ascii":
		return c < 128
	case "blank":
		return c == ' ' || c == '\t'
	case "cntrl":
		return c < 32 || c == 127
	case "digit":
		return dg
	case "graph":
		return c > 32 && c < 127
	case "lower":
		return lo
	case "print":
		return c >= 32 && c < 127
	case "punct":
		return c > 32 && c < 127 && !up && !lo && !dg
	case "space":
		return c == ' ' || (c >= 9 && c <= 13)
	case "upper":
		return up
	case "word":
		return up || lo || dg || c == '_'
	case "xdigit":
		return dg || (c >= 'a' && c <= 'f') || (c >= 'A' && c <= 'F')
	}
	return false
}

// refBracket evaluates the bracket expression starting at p[0]=='['.
// It returns (matched, lengthOfBracket, ok); ok=false means the '[' is not
// the start of a bracket expression (no closing ']') and is a literal.
// bad reports a reversed range or an invalid class inside.
// refHard is set when bash gives up on the whole match: an escape or a range
// end running into the end of the pattern inside a bracket.
var refHard bool

func refBracket(p string, test byte, o *refOpts) (matched bool, n int, ok bool, badRange, badClass bool) {
	refHard = false
	i := 1
	not := false
	if i < len(p) && (p[i] == '!' || p[i] == '^') {
		not = true
		i++
	}
	test = refFold(test, o)
	if i >= len(p) {
		return false, 0, false, false, false
	}
	found := false
	c := p[i]
	i++
	for {
		cstart, cend := c, c
		isClass := false
		classHit := false
		if c == '[' && i < len(p) && (p[i] == ':' || p[i] == '.' || p[i] == '=') {
			// [:class:], [.sym.], [=eq=]
			kind := p[i]
			j := i + 1
			end := -1
			for ; j+1 < len(p); j++ {
				if p[j] == kind && p[j+1] == ']' {
					end = j
					break
				}
			}
			if end >= 0 {
				name := p[i+1 : end]
				if kind == ':' {
					valid := false
					for _, cn := range refClassNames {
						if cn == name {
							valid = true
						}
					}
					if valid {
						isClass = true
						tc := test
						if o.nocase && (name == "upper" || name == "lower") {
							classHit = refInClass("alpha", tc)
						} else {
							classHit = refInClass(name, tc)
						}
					} else {
						badClass = true
						isClass = true
					}
				} else {
					// collating symbols / equivalence classes: single characters match themselves
					badClass = true
					isClass = true
					if len(name) == 1 {
						classHit = refFold(name[0], o) == test
					}
				}
				i = end + 2
			}
		}
		if !isClass && c == '\\' {
			if i >= len(p) {
				refHard = true
				return false, 0, false, badRange, badClass
			}
			cstart = p[i]
			cend = cstart
			i++
		}
		cstart = refFold(cstart, o)
		cend = cstart
		if i >= len(p) {
			return false, 0, false, badRange, badClass
		}
		c = p[i]
		i++
		if o.pathname && c == '/' {
			// a bracket containing a slash never matches in pathname mode;
			// keep scanning for the end so that the length is known
		}
		isRange := false
		skip := false
		if !isClass && c == '-' && i >= len(p) {
			refHard = true // "[a-" : the range end is the end of the pattern
			return false, 0, false, badRange, badClass
		}
		if !isClass && c == '-' && i < len(p) && p[i] != ']' {
			cend = p[i]
			i++
			if cend == '\\' {
				if i >= len(p) {
					refHard = true
					return false, 0, false, badRange, badClass
				}
				cend = p[i]
				i++
			}
			cend = refFold(cend, o)
			if i >= len(p) {
				return false, 0, false, badRange, badClass
			}
			c = p[i]
			i++
			if cstart > cend {
				badRange = true
				skip = true
			} else {
				isRange = true
			}
		}
		if !skip {
			switch {
			case isClass:
				if classHit {
					found = true
				}
			case isRange:
				if test >= cstart && test <= cend {
					found = true
				}
			default:
				if test == cstart {
					found = true
				}
			}
		}
		if c == ']' {
			break
		}
	}
	return found != not, i, true, badRange, badClass
}

func refBracketHasSlash(p string) bool {
	for i := 0; i < len(p); i++ {
		if p[i] == '/' {
			return true
		}
	}
	return false
}

// refMatch reports whether pattern p matches all of t. atStart is true when
// t begins a pathname component (for the leading-dot rule).
func refMatch(p, t string, o *refOpts, atStart bool) bool {
	if len(p) == 0 {
		return len(t) == 0
	}
	needDot := o.pathname && !o.dotglob && atStart && len(t) > 0 && t[0] == '.'
	c := p[0]
	if o.extglob && len(p) > 1 && p[1] == '(' && (c == '?' || c == '*' || c == '+' || c == '@' || c == '!') {
		if end := refParenEnd(p, 1); end > 0 {
			alts := refSplitAlts(p[2:end])
			rest := p[end+1:]
			return refExtMatch(c, alts, rest, t, o, atStart)
		}
	}
	switch c {
	case '?':
		if len(t) == 0 || needDot || (o.pathname && t[0] == '/') {
			return false
		}
		return refMatch(p[1:], t[1:], o, false)
	case '*':
		if needDot {
			return false
		}
		for k := 0; k <= len(t); k++ {
			if k > 0 && o.pathname && t[k-1] == '/' {
				break
			}
			if refMatch(p[1:], t[k:], o, atStart && k == 0) {
				return true
			}
		}
		return false
	case '\\':
		if len(p) == 1 {
			if o.devTrailingBackslashErr {
				return false
			}
			return len(t) == 1 && t[0] == '\\'
		}
		if len(t) == 0 || refFold(t[0], o) != refFold(p[1], o) {
			return false
		}
		return refMatch(p[2:], t[1:], o, o.pathname && t[0] == '/')
	case '[':
		var tb byte
		if len(t) > 0 {
			tb = t[0]
		}
		m, n, ok, _, _ := refBracket(p, tb, o)
		if refHard {
			refHard = false
			return false
		}
		if ok {
			if len(t) == 0 || needDot {
				return false
			}
			if o.pathname && (t[0] == '/' || refBracketHasSlash(p[:n])) {
				return false
			}
			if !m {
				return false
			}
			return refMatch(p[n:], t[1:], o, false)
		}
		// literal '['
	}
	if len(t) == 0 || refFold(t[0], o) != refFold(c, o) {
		return false
	}
	return refMatch(p[1:], t[1:], o, o.pathname && t[0] == '/')
}

func refParenEnd(p string, open int) int {
	depth := 0
	for i := open; i < len(p); i++ {
		switch p[i] {
		case '\\':
			i++
		case '[':
			// skip a bracket expression
			if _, n, ok, _, _ := refBracket(p[i:], 0, &refOpts{}); ok {
				i += n - 1
			}
		case '(':
			depth++
		case ')':
			depth--
			if depth == 0 {
				return i
			}
		}
	}
	return -1
}

func refSplitAlts(s string) []string {
	var out []string
	depth, last := 0, 0
	for i := 0; i < len(s); i++ {
		switch s[i] {
		case '\\':
			i++
		case '[':
			if _, n, ok, _, _ := refBracket(s[i:], 0, &refOpts{}); ok {
				i += n - 1
			}
		case '(':
			depth++
		case ')':
			depth--
		case '|':
			if depth == 0 {
				out = append(out, s[last:i])
				last = i + 1
			}
		}
	}
	return append(out, s[last:])
}

func refExtMatch(op byte, alts []string, rest, t string, o *refOpts, atStart bool) bool {
	switch op {
	case '@', '?':
		if op == '?' && refMatch(rest, t, o, atStart) {
			return true
		}
		for k := 0; k <= len(t); k++ {
			for _, a := range alts {
				if refMatch(a, t[:k], o, atStart) && refMatch(rest, t[k:], o, atStart && k == 0) {
					return true
				}
			}
		}
		return false
	case '*', '+':
		if op == '*' && refMatch(rest, t, o, atStart) {
			return true
		}
		for k := 1; k <= len(t); k++ {
			for _, a := range alts {
				if refMatch(a, t[:k], o, atStart) {
					if refMatch(rest, t[k:], o, false) || refExtMatch('*', alts, rest, t[k:], o, false) && k < len(t) {
						return true
					}
				}
			}
		}
		if op == '+' {
			// one or more: also allow an alternative matching the empty string
			for _, a := range alts {
				if refMatch(a, "", o, atStart) && refMatch(rest, t, o, atStart) {
					return true
				}
			}
		}
		return false
	case '!':
		for k := 0; k <= len(t); k++ {
			hit := false
			for _, a := range alts {
				if refMatch(a, t[:k], o, atStart) {
					hit = true
				}
			}
			if !hit && refMatch(rest, t[k:], o, atStart && k == 0) {
				return true
			}
		}
		return false
	}
	return false
}

// refScan reports pattern-level defects the implementation turns into errors.
func refScan(p string, o *refOpts) (badRange, badClass bool) {
	for i := 0; i < len(p); i++ {
		switch p[i] {
		case '\\':
			i++
		case '[':
			if _, n, ok, br, bc := refBracket(p[i:], 0, o); ok {
				badRange = badRange || br
				badClass = badClass || bc
				i += n - 1
			}
		}
	}
	return
}

func refExtQuirk(p string) bool {
	d := 0
	for i := 0; i < len(p); i++ {
		switch p[i] {
		case '\\':
			i++
		case '(':
			d++
			if i == 0 || !(p[i-1] == '?' || p[i-1] == '*' || p[i-1] == '+' || p[i-1] == '@' || p[i-1] == '!') {
				return true // bare parenthesis
			}
			if i >= 2 && p[i-2] == '*' {
				return true // star directly before an extended operator
			}
			if i+1 < len(p) && (p[i+1] == ')' || p[i+1] == '|') {
				return true // empty alternative
			}
		case '|':
			if d == 0 {
				return true
			}
			if i+1 < len(p) && (p[i+1] == ')' || p[i+1] == '|') {
				return true
			}
		case ')':
			d--
			if d < 0 {
				return true
			}
		}
	}
	return d != 0
}

// ---- subject side ----

// Verif_c17_match: Regexp(p) compiles and accepts exactly what bash matches.
func Verif_c17_match() {
	n, m := verifParam("n"), verifParam("m")
	p := verifString("p", n)
	t := verifString("t", m)
	alphaP, alphaT := "*?[]!^-\\ab.A:", "abA-].\\^!["
	var o refOpts
	mode := EntireString
	switch verifParam("mode") {
	case 1:
		o.nocase = true
		mode |= NoGlobCase
	case 2:
		o.extglob = true
		mode |= ExtendedOperators
		alphaP = "*?@+()|ab[]\\"
		alphaT = "ab()|"
	}
	// Shortest changes which match a search prefers, never whether the whole
	// string matches; it is combined with every mode
	if verifParam("shortest") != 0 {
		mode |= Shortest
	}
	for i := 0; i < len(p); i++ {
		verifAssume(verifInSet(p[i], alphaP))
	}
	for i := 0; i < len(t); i++ {
		verifAssume(verifInSet(t[i], alphaT))
	}
	if o.extglob {
		// bash itself is erratic for these shapes (e.g. *@() matches nothing); outside the claim
		verifAssume(!refExtQuirk(p))
	}
	// a pattern ending in a lone backslash: bash's own treatment depends on
	// what precedes it; the implementation reports a syntax error
	nb := 0
	for k := len(p); k > 0 && p[k-1] == '\\'; k-- {
		nb++
	}
	if verifKnown("C17-trailing-backslash", nb%2 == 1) {
		return
	}
	// an unterminated bracket whose scan ends inside an escape or a range:
	// bash gives up on the whole match, the implementation treats "[" as a literal
	hard := false
	for k := 0; k < len(p); k++ {
		if p[k] == '\\' {
			k++
			continue
		}
		if p[k] == '[' {
			_, bn, bok, _, _ := refBracket(p[k:], 0, &o)
			if refHard {
				hard = true
			}
			refHard = false
			if bok {
				k += bn - 1
			}
		}
	}
	if verifKnown("C17-unterminated-bracket-range", hard) {
		return
	}
	expr, err := Regexp(p, mode)
	got := false
	if err == nil {
		rx, cerr := regexp.Compile(expr)
		verifAssert(cerr == nil, "Regexp returned an expression that does not compile")
		if cerr != nil {
			return
		}
		got = rx.MatchString(t)
	} else {
		verifReach("pattern-error")
	}
	want := refMatch(p, t, &o, true)
	if got != want {
		// listed deviations: the implementation must then equal the deviation model
		br, bc := refScan(p, &o)
		if verifKnown("C17-invalid-range-is-error", br && err != nil && !got) {
			want = got
		}
		if verifKnown("C17-invalid-class-is-error", bc && err != nil && !got) {
			want = got
		}
	}
	verifAssert(got == want, "pattern match differs from bash")
	verifReach("end")
}
