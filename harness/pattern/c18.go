package pattern

import (
	"regexp"
	"unicode/utf8"
)

func verifNoNul(s string) {
	for i := 0; i < len(s); i++ {
		verifAssume(s[i] != 0)
	}
}

func verifAlpha(s string) {
	if verifParam("alpha") == 1 {
		for i := 0; i < len(s); i++ {
			verifAssume(verifInSet(s[i], "*?[]!^-\\/.:ab A()|@+\n\xc3\xa9"))
		}
	}
}

// Verif_c18_quote: QuoteMeta(s) has no metacharacters and matches exactly s.
func Verif_c18_quote() {
	n := verifParam("n")
	s := verifString("s", n)
	verifNoNul(s)
	verifAlpha(s)
	verifAssume(utf8.ValidString(s))
	mode := EntireString
	if verifParam("ext") != 0 {
		mode |= ExtendedOperators
	}
	q := QuoteMeta(s, 0)
	verifAssert(!HasMeta(q, 0), "QuoteMeta result still has metacharacters")
	expr, err := Regexp(q, mode)
	verifAssert(err == nil, "QuoteMeta result is not a valid pattern")
	if err != nil {
		return
	}
	rx, cerr := regexp.Compile(expr)
	verifAssert(cerr == nil, "Regexp of QuoteMeta result does not compile")
	if cerr != nil {
		return
	}
	verifAssert(rx.MatchString(s), "QuoteMeta(s) does not match s")
	// nothing else of the same length, one shorter or one longer matches
	d := verifParam("dlen")
	if n+d >= 0 {
		t := verifString("t", n+d)
		verifNoNul(t)
		verifAssume(utf8.ValidString(t))
		if rx.MatchString(t) {
			verifAssert(t == s, "QuoteMeta(s) matches a string other than s")
		}
	}
	verifReach("end")
}

func verifUnescape(p string) string {
	out := make([]byte, 0, len(p))
	for i := 0; i < len(p); i++ {
		if p[i] == '\\' && i+1 < len(p) {
			i++
		}
		out = append(out, p[i])
	}
	return string(out)
}

// Verif_c18_nometa: a pattern without metacharacters matches at most its
// unescaped self.
func Verif_c18_nometa() {
	n := verifParam("n")
	p := verifString("p", n)
	verifNoNul(p)
	verifAlpha(p)
	verifAssume(utf8.ValidString(p))
	verifAssume(!HasMeta(p, 0))
	mode := EntireString
	if verifParam("ext") != 0 {
		mode |= ExtendedOperators
	}
	expr, err := Regexp(p, mode)
	if err != nil {
		verifReach("pattern-error")
		verifReach("end")
		return
	}
	rx, cerr := regexp.Compile(expr)
	verifAssert(cerr == nil, "Regexp of a pattern without metacharacters does not compile")
	if cerr != nil {
		return
	}
	u := verifUnescape(p)
	d := verifParam("dlen")
	if len(u)+d >= 0 {
		t := verifString("t", len(u)+d)
		verifNoNul(t)
		verifAssume(utf8.ValidString(t))
		if rx.MatchString(t) {
			verifAssert(t == u, "a pattern without metacharacters matches a string other than itself unescaped")
		}
	}
	verifReach("end")
}
