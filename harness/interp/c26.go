package interp

import (
	"bytes"
	"context"
	"strings"

	"mvdan.cc/sh/v3/syntax"
)

// The tokens a [[ ]] expression is built from. Words first (verifCondWords of
// them), then unary operators, binary operators, connectives.
var verifCondToks = [...]string{`"$a"`, `"$b"`, "x", `""`, "$((i+=1))", "-n", "-z", "==", "!=", "<", "!", "&&", "||", "(", ")"}

const verifCondWords = 5

// refCond evaluates a token sequence the way bash's parse.y (cond_or,
// cond_and, cond_term) and execute_cond_node do. bad is set when bash reports
// a syntax error. Validated against bash 5.2 over every sequence of up to five
// tokens (tools/refcond_validation_test.go.txt).
type refCond struct {
	toks []string
	i    int
	bad  bool
	a, b string
	// n counts the expansions of $((i+=1)); dead is set while the operand of
	// a decided && or || is parsed, which bash does not expand
	n, dead int
	// eof: the end of the tokens was looked at; in prefix mode (see
	// refCondViable) failures after that point do not count
	eof, prefix bool
}

func (c *refCond) fail() {
	if !(c.prefix && c.eof) {
		c.bad = true
	}
}

func (c *refCond) peek() string {
	if c.i < len(c.toks) {
		return c.toks[c.i]
	}
	c.eof = true
	return "]]"
}

// word reports whether the next token is read as a WORD by bash in operand
// position: everything except the operators the lexer returns as tokens of
// their own. "!" is a reserved word only where a command could start.
func (c *refCond) word(afterWord bool) (string, bool) {
	t := c.peek()
	switch t {
	case "]]", "&&", "||", "(", ")", "<":
		return "", false
	case "!":
		if !afterWord {
			return "", false
		}
	}
	return t, true
}

func (c *refCond) val(t string) string {
	switch t {
	case `"$a"`:
		return c.a
	case `"$b"`:
		return c.b
	case `""`:
		return ""
	case "$((i+=1))":
		if c.dead == 0 {
			c.n++
		}
		return string(rune('0' + c.n))
	}
	return t
}

func (c *refCond) or() bool {
	l := c.and()
	if !c.bad && c.peek() == "||" {
		c.i++
		if l {
			c.dead++
		}
		r := c.or()
		if l {
			c.dead--
		}
		return l || r
	}
	return l
}

func (c *refCond) and() bool {
	l := c.term()
	if !c.bad && c.peek() == "&&" {
		c.i++
		if !l {
			c.dead++
		}
		r := c.and()
		if !l {
			c.dead--
		}
		return l && r
	}
	return l
}

func (c *refCond) term() bool {
	if c.bad {
		return false
	}
	switch t := c.peek(); t {
	case "(":
		c.i++
		v := c.or()
		if c.bad || c.peek() != ")" {
			c.fail()
			return false
		}
		c.i++
		return v
	case "!":
		c.i++
		return !c.term()
	case "-n", "-z":
		c.i++
		w, ok := c.word(true)
		if !ok {
			c.fail()
			return false
		}
		c.i++
		return (c.val(w) != "") == (t == "-n")
	}
	left, ok := c.word(false)
	if !ok {
		c.fail()
		return false
	}
	c.i++
	switch op := c.peek(); op {
	case "==", "!=", "<":
		c.i++
		right, ok := c.word(true)
		if !ok {
			c.fail()
			return false
		}
		c.i++
		l, r := c.val(left), c.val(right)
		switch op {
		case "==":
			return l == r
		case "!=":
			return l != r
		}
		return l < r
	case "]]", "&&", "||", ")":
		return c.val(left) != ""
	}
	c.fail()
	return false
}

// refCondEval returns the exit status of [[ toks ]], how often $((i+=1)) was
// expanded, and whether bash accepts the expression.
func refCondEval(toks []string, a, b string) (status, n int, ok bool) {
	c := &refCond{toks: toks, a: a, b: b}
	v := c.or()
	if c.bad || c.i != len(toks) {
		return 2, 0, false
	}
	if v {
		return 0, c.n, true
	}
	return 1, c.n, true
}

// refCondViable: some continuation of the tokens is accepted by bash.
func refCondViable(toks []string) bool {
	c := &refCond{toks: toks, prefix: true}
	c.or()
	return !c.bad && (c.eof || c.i == len(toks))
}

var verifCondVals = [...]string{"", "x", "y"}

// Verif_c26_cond: for every sequence of ntok tokens that bash accepts as a
// [[ ]] expression, the parser accepts it too and the interpreter's exit
// status is bash's (the reference's), for all values of a and b.
func Verif_c26_cond() {
	ntok := verifParam("ntok")
	ids := [...]string{"t0", "t1", "t2", "t3", "t4", "t5", "t6", "t7"}
	var toks []string
	for i := 0; i < ntok; i++ {
		toks = append(toks, verifCondToks[verifChoice(ids[i], len(verifCondToks))])
		// prune: no continuation of this prefix is a valid expression
		verifAssume(refCondViable(toks))
	}
	a := verifCondVals[verifChoice("a", 3)]
	b := verifCondVals[verifChoice("b", 2)]
	want, wantN, ok := refCondEval(toks, a, b)
	verifAssume(ok)
	src := "i=0; a=" + a + "; b=" + b + "\n[[ " + strings.Join(toks, " ") + " ]]\nst=$?; echo $i; exit $st\n"
	f, err := syntax.NewParser().Parse(strings.NewReader(src), "")
	verifAssert(err == nil, "a [[ ]] expression bash accepts is rejected")
	if err != nil {
		return
	}
	var out, errb bytes.Buffer
	r := verifRunner(&out, &errb)
	rerr := r.Run(context.Background(), f)
	got := 0
	if rerr != nil {
		st, isExit := rerr.(ExitStatus)
		verifAssert(isExit, "[[ ]]: Run fails with an error that is no exit status")
		got = int(st)
	}
	verifObserve("src", src)
	verifObserve("status", string(rune(0x30+got)))
	verifAssert(got == want, "[[ ]]: exit status differs from bash's grammar and evaluation")
	verifAssert(out.String() == string(rune('0'+wantN))+"\n", "[[ ]]: an operand was expanded that bash does not expand (or the reverse)")
	verifReach("end")
}

// The arguments test and [ are called with.
var verifTestArgs = [...]string{"x", "", "!", "-n", "=", "-a", "-o", "(", ")", "-z", "!="}

// refTest is bash's test.c (posixtest, two_arguments, three_arguments, expr,
// or, and, term): the exit status of "test args". No file exists and no
// option is set, so the unary -a and -o are false. Validated against bash 5.2
// over every sequence of up to five arguments
// (tools/refcond_validation_test.go.txt).
type refTest struct {
	argv []string
	pos  int
	bad  bool
}

func refTestBinop(s string) bool { return s == "=" || s == "!=" }
func refTestUnop(s string) bool  { return s == "-n" || s == "-z" || s == "-a" || s == "-o" }

func (t *refTest) advance(must bool) {
	t.pos++
	if must && t.pos >= len(t.argv) {
		t.bad = true
	}
}

func (t *refTest) unary() bool {
	op, arg := t.argv[t.pos], t.argv[t.pos+1]
	t.pos += 2
	switch op {
	case "-n":
		return arg != ""
	case "-z":
		return arg == ""
	}
	return false
}

func (t *refTest) binary() bool {
	l, op, r := t.argv[t.pos], t.argv[t.pos+1], t.argv[t.pos+2]
	t.pos += 3
	if op == "=" {
		return l == r
	}
	return l != r
}

func (t *refTest) two() bool {
	a := t.argv[t.pos]
	if a == "!" {
		v := t.argv[t.pos+1] == ""
		t.pos += 2
		return v
	}
	if refTestUnop(a) {
		return t.unary()
	}
	t.bad = true
	return false
}

func (t *refTest) three() bool {
	a, b, c := t.argv[t.pos], t.argv[t.pos+1], t.argv[t.pos+2]
	switch {
	case refTestBinop(b):
		return t.binary()
	case b == "-a":
		t.pos += 3
		return a != "" && c != ""
	case b == "-o":
		t.pos += 3
		return a != "" || c != ""
	case a == "!":
		t.pos++
		return !t.two()
	case a == "(" && c == ")":
		t.pos += 3
		return b != ""
	}
	t.bad = true
	return false
}

func (t *refTest) or() bool {
	v := t.and()
	if !t.bad && t.pos < len(t.argv) && t.argv[t.pos] == "-o" {
		t.advance(false)
		v2 := t.or()
		return v || v2
	}
	return v
}

func (t *refTest) and() bool {
	v := t.term()
	if !t.bad && t.pos < len(t.argv) && t.argv[t.pos] == "-a" {
		t.advance(false)
		v2 := t.and()
		return v && v2
	}
	return v
}

func (t *refTest) expr() bool {
	if t.pos >= len(t.argv) {
		t.bad = true
		return false
	}
	return t.or()
}

func (t *refTest) term() bool {
	if t.bad || t.pos >= len(t.argv) {
		t.bad = true
		return false
	}
	if t.argv[t.pos] == "!" {
		neg := false
		for t.pos < len(t.argv) && t.argv[t.pos] == "!" {
			t.advance(true)
			neg = !neg
			if t.bad {
				return false
			}
		}
		v := t.term()
		return v != neg
	}
	if t.argv[t.pos] == "(" {
		t.advance(true)
		if t.bad {
			return false
		}
		v := t.expr()
		if t.bad || t.pos >= len(t.argv) || t.argv[t.pos] != ")" {
			t.bad = true
			return false
		}
		t.advance(false)
		return v
	}
	if t.pos+3 <= len(t.argv) && refTestBinop(t.argv[t.pos+1]) {
		return t.binary()
	}
	if t.pos+2 <= len(t.argv) && refTestUnop(t.argv[t.pos]) {
		return t.unary()
	}
	v := t.argv[t.pos] != ""
	t.advance(false)
	return v
}

// refTestEval returns bash's exit status of "test argv": 0, 1 or 2 (error).
func refTestEval(argv []string) int {
	t := &refTest{argv: argv}
	var v bool
	switch len(argv) {
	case 0:
		v = false
	case 1:
		v = argv[0] != ""
		t.pos = 1
	case 2:
		v = t.two()
	case 3:
		v = t.three()
	default:
		if len(argv) == 4 && argv[0] == "!" {
			t.pos = 1
			v = !t.three()
		} else if len(argv) == 4 && argv[0] == "(" && argv[3] == ")" {
			t.pos = 1
			v = t.two()
			t.pos = 4
		} else {
			v = t.expr()
		}
	}
	if t.bad || t.pos != len(argv) {
		return 2
	}
	if v {
		return 0
	}
	return 1
}

// Verif_c26_test: for every list of nargs arguments out of the first ntok of
// verifTestArgs, test (or [ with a closing ]) exits with bash's status: 0, 1,
// or 2 for a malformed expression.
func Verif_c26_test() {
	nargs, ntok := verifParam("nargs"), verifParam("ntok")
	ids := [...]string{"t0", "t1", "t2", "t3", "t4", "t5", "t6", "t7"}
	var argv []string
	var ws []*syntax.Word
	for i := 0; i < nargs; i++ {
		t := verifTestArgs[verifChoice(ids[i], ntok)]
		argv = append(argv, t)
		ws = append(ws, &syntax.Word{Parts: []syntax.WordPart{&syntax.SglQuoted{Value: t}}})
	}
	name := "test"
	if verifParam("bracket") != 0 {
		name = "["
		ws = append(ws, &syntax.Word{Parts: []syntax.WordPart{&syntax.Lit{Value: "]"}}})
	}
	want := refTestEval(argv)
	var out, errb bytes.Buffer
	r := verifRunner(&out, &errb)
	rerr := r.Run(context.Background(), verifCall(name, ws))
	got := 0
	if rerr != nil {
		st, isExit := rerr.(ExitStatus)
		verifAssert(isExit, "test: Run fails with an error that is no exit status")
		got = int(st)
	}
	verifObserve("args", strings.Join(argv, " "))
	verifObserve("status", string(rune(0x30+got)))
	verifAssert(got == want, "test: exit status differs from bash's")
	verifReach("end")
}
