package interp

import (
	"bytes"
	"context"
	"strings"

	"mvdan.cc/sh/v3/syntax"
)

// The tokens a [[ ]] expression is built from. Words first (verifCondWords of
// them), then unary operators, binary operators, connectives.
var verifCondToks = [...]string{`"$a"`, `"$b"`, "x", `""`, "-n", "-z", "==", "!=", "<", "!", "&&", "||", "(", ")"}

const verifCondWords = 4

// refCond evaluates a token sequence the way bash's parse.y (cond_or,
// cond_and, cond_term) and execute_cond_node do. bad is set when bash reports
// a syntax error. Validated against bash 5.2 over every sequence of up to five
// tokens (tools/refcond_validation_test.go.txt).
type refCond struct {
	toks []string
	i    int
	bad  bool
	a, b string
	// eof: the end of the tokens was looked at; in prefix mode (see
	// refCondViable) failures after that point do not count
	eof, prefix bool
}

func (c *refCond) fail() {
	if !(c.prefix && c.eof) {
		c.bad = true
	}
}

func (c *refCond) peek() string {
	if c.i < len(c.toks) {
		return c.toks[c.i]
	}
	c.eof = true
	return "]]"
}

// word reports whether the next token is read as a WORD by bash in operand
// position: everything except the operators the lexer returns as tokens of
// their own. "!" is a reserved word only where a command could start.
func (c *refCond) word(afterWord bool) (string, bool) {
	t := c.peek()
	switch t {
	case "]]", "&&", "||", "(", ")", "<":
		return "", false
	case "!":
		if !afterWord {
			return "", false
		}
	}
	return t, true
}

func (c *refCond) val(t string) string {
	switch t {
	case `"$a"`:
		return c.a
	case `"$b"`:
		return c.b
	case `""`:
		return ""
	}
	return t
}

func (c *refCond) or() bool {
	l := c.and()
	if !c.bad && c.peek() == "||" {
		c.i++
		r := c.or()
		return l || r
	}
	return l
}

func (c *refCond) and() bool {
	l := c.term()
	if !c.bad && c.peek() == "&&" {
		c.i++
		r := c.and()
		return l && r
	}
	return l
}

func (c *refCond) term() bool {
	if c.bad {
		return false
	}
	switch t := c.peek(); t {
	case "(":
		c.i++
		v := c.or()
		if c.bad || c.peek() != ")" {
			c.fail()
			return false
		}
		c.i++
		return v
	case "!":
		c.i++
		return !c.term()
	case "-n", "-z":
		c.i++
		w, ok := c.word(true)
		if !ok {
			c.fail()
			return false
		}
		c.i++
		return (c.val(w) != "") == (t == "-n")
	}
	left, ok := c.word(false)
	if !ok {
		c.fail()
		return false
	}
	c.i++
	switch op := c.peek(); op {
	case "==", "!=", "<":
		c.i++
		right, ok := c.word(true)
		if !ok {
			c.fail()
			return false
		}
		c.i++
		l, r := c.val(left), c.val(right)
		switch op {
		case "==":
			return l == r
		case "!=":
			return l != r
		}
		return l < r
	case "]]", "&&", "||", ")":
		return c.val(left) != ""
	}
	c.fail()
	return false
}

// refCondEval returns the exit status of [[ toks ]] and whether bash accepts it.
func refCondEval(toks []string, a, b string) (status int, ok bool) {
	c := &refCond{toks: toks, a: a, b: b}
	v := c.or()
	if c.bad || c.i != len(toks) {
		return 2, false
	}
	if v {
		return 0, true
	}
	return 1, true
}

// refCondViable: some continuation of the tokens is accepted by bash.
func refCondViable(toks []string) bool {
	c := &refCond{toks: toks, prefix: true}
	c.or()
	return !c.bad && (c.eof || c.i == len(toks))
}

var verifCondVals = [...]string{"", "x", "y"}

// Verif_c26_cond: for every sequence of ntok tokens that bash accepts as a
// [[ ]] expression, the parser accepts it too and the interpreter's exit
// status is bash's (the reference's), for all values of a and b.
func Verif_c26_cond() {
	ntok := verifParam("ntok")
	ids := [...]string{"t0", "t1", "t2", "t3", "t4", "t5", "t6", "t7"}
	var toks []string
	for i := 0; i < ntok; i++ {
		toks = append(toks, verifCondToks[verifChoice(ids[i], len(verifCondToks))])
		// prune: no continuation of this prefix is a valid expression
		verifAssume(refCondViable(toks))
	}
	a := verifCondVals[verifChoice("a", 3)]
	b := verifCondVals[verifChoice("b", 2)]
	want, ok := refCondEval(toks, a, b)
	verifAssume(ok)
	src := "a=" + a + "; b=" + b + "\n[[ " + strings.Join(toks, " ") + " ]]\n"
	f, err := syntax.NewParser().Parse(strings.NewReader(src), "")
	verifAssert(err == nil, "a [[ ]] expression bash accepts is rejected")
	if err != nil {
		return
	}
	var out, errb bytes.Buffer
	r := verifRunner(&out, &errb)
	rerr := r.Run(context.Background(), f)
	got := 0
	if rerr != nil {
		st, isExit := rerr.(ExitStatus)
		verifAssert(isExit, "[[ ]]: Run fails with an error that is no exit status")
		got = int(st)
	}
	verifObserve("src", src)
	verifObserve("status", string(rune(0x30+got)))
	verifAssert(got == want, "[[ ]]: exit status differs from bash's grammar and evaluation")
	verifReach("end")
}
