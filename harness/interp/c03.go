package interp

import (
	"bytes"
	"context"
	"strings"

	"mvdan.cc/sh/v3/expand"
	"mvdan.cc/sh/v3/syntax"
)

// programs for C03: those of the C04, C29 and C28 harnesses that terminate
// and print something, plus layout-sensitive ones
var verifC03Extra = [...]string{
	"cat <<EOF\n  $s  \n\tkeep\nEOF\ncat <<-EOF\n\ttab $s\n\tEOF\necho \"a\n b\"  'c\n d'",
	"if [ \"$x\" -gt 1 ]; then echo big; elif [ \"$x\" -eq 1 ]; then echo one; else echo small; fi; for i in 1 2; do echo $i; done; while false; do :; done; until true; do :; done",
	"f() { echo \"in $1\"; return 3; }; f a; echo $?; g() ( echo sub; exit 2 ); g; echo $?; { echo grp; } | cat; ! true; echo $?",
	"case $s in a*) echo A ;; b | c) echo BC ;& *) echo fall ;; esac; echo $(( x + 1 )) $(( (x) * 2 )) ${s:-d} \"${s#a}\" ${#s}",
	"a=(1 \"$s\" 3); echo ${a[@]} ${#a[@]} ${a[1]}; declare -A m=([k]=v); echo ${m[k]}; x=1 y=2 env_test=3; echo $x$y; [[ $s == a* && -n $s || $x -lt 2 ]]; echo $?",
	"echo a; echo b # comment\n# full line\necho c \\\n  d; echo 'e' \"f\" $'g\\th'; echo {1,2}{a,b}; echo ~ > /dev/null; echo $(echo sub; echo two) `echo bq`",
}

type verifC03Opts struct {
	indent                                                    uint
	binNext, swCase, spRedir, keepPad, fnNext, minify, single bool
}

func verifC03PrinterOpts() verifC03Opts {
	return verifC03Opts{
		indent:  uint(verifChoice("opt.indent", 3)) * 2,
		binNext: verifBool("opt.binNext"), swCase: verifBool("opt.swCase"), spRedir: verifBool("opt.spRedir"),
		keepPad: verifBool("opt.keepPad"), fnNext: verifBool("opt.fnNext"), minify: verifBool("opt.minify"), single: verifBool("opt.single"),
	}
}

func (o verifC03Opts) printer() *syntax.Printer {
	return syntax.NewPrinter(syntax.Indent(o.indent), syntax.BinaryNextLine(o.binNext), syntax.SwitchCaseIndent(o.swCase),
		syntax.SpaceRedirects(o.spRedir), syntax.KeepPadding(o.keepPad), syntax.FunctionNextLine(o.fnNext), syntax.Minify(o.minify), syntax.SingleLine(o.single))
}

// Verif_c03_behaviour: a program printed with any printer options parses
// again and, run by the interpreter, writes the same output and ends with the
// same status as the original.
func Verif_c03_behaviour() {
	progs := append(append(append([]string(nil), verifC03Extra[:]...), verifC04Programs[:]...), verifC29Programs[:]...)
	k := verifParam("prog")
	if k < 0 {
		k = verifChoice("prog", len(progs))
	}
	x := verifString("x", 1)
	verifAssume(verifInSet(x[0], "0123"))
	s := verifString("s", verifParam("ns"))
	for i := 0; i < len(s); i++ {
		verifAssume(verifInSet(s[i], "ab* "))
	}
	o := verifC03PrinterOpts()
	verifAssume(!(o.minify && o.single))
	src := progs[k]
	orig, err := syntax.NewParser(syntax.KeepComments(true)).Parse(strings.NewReader(src), "")
	verifAssume(err == nil)
	var printed bytes.Buffer
	verifAssert(o.printer().Print(&printed, orig) == nil, "the program does not print")
	re, rerr := syntax.NewParser(syntax.KeepComments(true)).Parse(bytes.NewReader(printed.Bytes()), "")
	verifAssert(rerr == nil, "the formatted program does not parse")
	if rerr != nil {
		return
	}
	run := func(f *syntax.File) string {
		var out, errb bytes.Buffer
		r := verifRunner(&out, &errb, Env(expand.ListEnviron("HOME=/h", "PATH=/bin", "x="+x, "y=2", "s="+s, "X="+s)))
		err := r.Run(context.Background(), f)
		st := "0"
		if err != nil {
			st = err.Error()
		}
		return out.String() + "\x00" + st
	}
	a, b := run(orig), run(re)
	verifObserve("out", a)
	verifAssert(a == b, "the formatted program behaves differently from the original under the interpreter")
	verifReach("end")
}
