package interp

import (
	"bytes"
	"context"
	"sort"
	"strconv"
	"strings"

	"mvdan.cc/sh/v3/syntax"
)

// ---- reference: an indexed array as a map from indices to values ----

type refArray struct {
	m   map[int]string
	bad bool // bash reports an error for the operation
}

func (a *refArray) keys() []int {
	ks := make([]int, 0, len(a.m))
	for k := range a.m {
		ks = append(ks, k)
	}
	sort.Ints(ks)
	return ks
}

func (a *refArray) max() int {
	ks := a.keys()
	if len(ks) == 0 {
		return -1
	}
	return ks[len(ks)-1]
}

// resolve turns a possibly negative subscript into an index; ok is false
// when bash reports "bad array subscript".
func (a *refArray) resolve(i int) (int, bool) {
	if i < 0 {
		i += a.max() + 1
		if i < 0 {
			return 0, false
		}
	}
	return i, true
}

var verifArrIdx = [...]int{0, 1, 2, 5, -1, -2}
var verifArrOps = [...]string{"a=(x y z)", "a[I]=v", "a+=(w u)", "unset 'a[I]'", "a=([I]=p [J]=q)", "a[I]+=t", "a=()", "(unset 'a[I]'; a[J]=s; a+=(r))"}

// refApply applies operation op (with subscripts i, j) and returns its text.
func (a *refArray) apply(op, i, j int) string {
	is, js := strconv.Itoa(i), strconv.Itoa(j)
	switch op {
	case 0:
		a.m = map[int]string{0: "x", 1: "y", 2: "z"}
	case 1:
		if k, ok := a.resolve(i); ok {
			a.m[k] = "v"
		} else {
			a.bad = true
		}
	case 2:
		n := a.max() + 1
		a.m[n], a.m[n+1] = "w", "u"
	case 3:
		if k, ok := a.resolve(i); ok {
			delete(a.m, k)
		} else {
			a.bad = true
		}
	case 4:
		a.m = map[int]string{}
		// inside a compound assignment a negative subscript counts from
		// the elements assigned so far
		if k, ok := a.resolve(i); ok {
			a.m[k] = "p"
		} else {
			a.bad = true
		}
		if k, ok := a.resolve(j); ok {
			a.m[k] = "q"
		} else {
			a.bad = true
		}
	case 5:
		if k, ok := a.resolve(i); ok {
			a.m[k] += "t"
		} else {
			a.bad = true
		}
	case 6:
		a.m = map[int]string{}
	case 7:
		// a subshell: nothing it does reaches this shell
	}
	t := verifArrOps[op]
	t = strings.Replace(t, "I", is, 1)
	return strings.Replace(t, "J", js, 1)
}

// dump is what the final echo prints.
func (a *refArray) dump() string {
	ks := a.keys()
	var vals, idx []string
	for _, k := range ks {
		vals = append(vals, a.m[k])
		idx = append(idx, strconv.Itoa(k))
	}
	last := a.m[a.max()]
	one := a.m[1]
	var slice []string
	for _, k := range ks {
		if k >= 1 && len(slice) < 2 {
			slice = append(slice, a.m[k])
		}
	}
	neg2 := ""
	if k, ok := a.resolve(-2); ok {
		neg2 = a.m[k]
	}
	return strings.Join(vals, " ") + "|" + strings.Join(idx, " ") + "|" + strconv.Itoa(len(ks)) + "|" + last + "|" + one + "|" + strings.Join(slice, " ") + "|" + neg2 + "\n"
}

const verifArrDump = `a[7]=e; echo "${a[@]}|${!a[@]}|${#a[@]}|${a[-1]}|${a[1]}|${a[@]:1:2}|${a[-2]}"`

// verifArrProgram builds the program of nops operations chosen by pick and
// the reference's answer; ok is false when bash reports an error on the way.
func verifArrProgram(nops int, pick func(id string, n int) int) (src, want string, ok bool) {
	a := &refArray{m: map[int]string{}}
	var lines []string
	ids := [...]string{"op0", "op1", "op2", "op3"}
	iids := [...]string{"i0", "i1", "i2", "i3"}
	jids := [...]string{"j0", "j1", "j2", "j3"}
	for k := 0; k < nops; k++ {
		op := pick(ids[k], len(verifArrOps))
		i, j := 0, 0
		if strings.Contains(verifArrOps[op], "I") {
			i = verifArrIdx[pick(iids[k], len(verifArrIdx))]
		}
		if strings.Contains(verifArrOps[op], "J") {
			j = verifArrIdx[pick(jids[k], len(verifArrIdx))]
		}
		lines = append(lines, a.apply(op, i, j))
	}
	a.m[7] = "e"
	return strings.Join(lines, "\n") + "\n" + verifArrDump + "\n", a.dump(), !a.bad
}

// Verif_c33_interp: after every sequence of nops array operations (whole-array
// and element assignment, +=, sparse and negative subscripts, unset) the
// values, indices, count, last element, an element and a slice printed by the
// interpreter are those of the map model.
func Verif_c33_interp() {
	src, want, ok := verifArrProgram(verifParam("nops"), verifChoice)
	verifAssume(ok)
	f, err := syntax.NewParser().Parse(strings.NewReader(src), "")
	verifAssume(err == nil)
	var out, errb bytes.Buffer
	r := verifRunner(&out, &errb)
	rerr := r.Run(context.Background(), f)
	verifAssert(rerr == nil, "array operations: the program fails")
	verifObserve("out", out.String())
	verifAssert(out.String() == want, "array contents differ from the map model")
	verifReach("end")
}
