package interp

import (
	"bytes"
	"context"
	"strings"

	"mvdan.cc/sh/v3/expand"
	"mvdan.cc/sh/v3/syntax"
)

const verifParentSetup = `s=str; e=; a=(a0 a1 a2); sp=([1]=p1 [5]=p5); declare -A m=([k]=v [k2]=v2)
export ex=exported; readonly ro=fixed
f() { echo f; }; alias al=aliased
set -- p1 p2 p3
fn() { local loc=l; loc2=(x y); SUB; }
`

// mutating command lists; $X is an arbitrary string, $I an arbitrary small integer text
var verifMutations = [...]string{
	`a+=$X`, `a[$I]=$X`, `a+=($X)`, `unset a`, `unset "a[$I]"`, `a=($X)`, `a[0]+=$X`,
	`pushd`, `popd -n`, `pushd -n /zz`, `popd`, `popd -n +1; pushd -n /y`, `dirs -c`,
	`sp[$I]=$X`, `unset "sp[$I]"`, `sp+=($X)`,
	`m[$X]=$X`, `unset "m[k]"`, `m+=([n]=$X)`, `m=()`,
	`s=$X`, `s+=$X`, `e=$X`, `unset s`, `: ${s:=$X} ${un:=$X}`, `: $((s=5, a[1]=7, sp[$I]++))`, `let "a[$I]=1"`,
	`export s ex=$X`, `readonly s`, `declare -i s=3`, `declare -n ref=s; ref=$X`, `IFS=$X`,
	`f() { echo $X; }`, `unset -f f`, `alias al=$X nw=$X`, `unalias al`, `unalias -a`,
	`set -e; set -o pipefail; set -u`, `shopt -s nullglob; shopt -u expand_aliases`,
	`cd /tmp`, `cd /tmp; pushd / >/dev/null`, `shift`, `shift 2`, `set -- $X x`, `set --`,
	`read s <<< "$X"`, `read -a a <<< "$X $X"`, `mapfile a <<< "$X"`, `printf -v s %s "$X"`, `getopts ab s -a`,
	`a+=([$I]=$X)`, `sp+=([$I]=$X [1]=$X)`, `a+=([1]=$X [0]=$X)`, `m+=([k]=$X)`, `a=([$I]=$X)`, `sp[5]+=$X`, `a[-1]=$X`, `unset "a[-1]"`,
	`declare -a a+=($X)`, `local loc=$X loc2+=($X) 2>/dev/null; loc2[0]=$X`, `readonly a; export a`, `typeset -i a[1]=5`,
	`trap 'echo t' EXIT`, `eval "s=\$X; a[\$I]=\$X"`, `for s in $X; do :; done`, `OPTIND=3; ex=$X`,
}

var verifContexts = [...]string{`( SUB )`, `: $( SUB )`, `: "$( SUB )"`, `{ SUB; } | :`, `: | { SUB; }`, `{ SUB; } &` + "\nwait", `fn2() ( SUB ); fn2`, `: $( ( SUB ) ; SUB )`}

func verifFS() {
	// the in-memory file system used by cd and friends
}

func verifParentRunner(x, idx string, out, errb *bytes.Buffer) *Runner {
	return verifRunner(out, errb, Env(expand.ListEnviron("HOME=/h", "PATH=/bin", "X="+x, "I="+idx)),
		StatHandler(DefaultStatHandler()))
}

// verifState compares everything of a shell that a subshell must not change.
func verifSameShell(a, b *Runner) bool {
	return verifTreeEq(a.writeEnv, b.writeEnv, 0) && verifTreeEq(a.Funcs, b.Funcs, 1) && verifTreeEq(a.alias, b.alias, 1) &&
		verifTreeEq(a.opts, b.opts, 0) && a.Dir == b.Dir && verifTreeEq(a.dirStack, b.dirStack, 4) && verifTreeEq(a.Params, b.Params, 4) &&
		verifTreeEq(a.Vars, b.Vars, 0)
}

// Verif_c27_subshell: running a mutating command list in any isolating
// context leaves the parent shell exactly as a parent that never ran it.
func Verif_c27_subshell() {
	mut := verifParam("mut")
	if mut < 0 {
		mut = verifChoice("mut", len(verifMutations))
	}
	cx := verifParam("ctx")
	if cx < 0 {
		cx = verifChoice("ctx", len(verifContexts))
	}
	if verifKnown("C27-last-pipeline-stage", cx == 4) {
		return
	}
	inFunc := verifBool("inFunc")
	x := verifString("X", verifParam("nx"))
	for i := 0; i < len(x); i++ {
		verifAssume(verifInSet(x[i], "ab 1*="))
	}
	idx := verifString("I", verifParam("ni"))
	for i := 0; i < len(idx); i++ {
		verifAssume(verifInSet(idx[i], "0125-"))
	}
	sub := strings.ReplaceAll(verifContexts[cx], "SUB", verifMutations[mut])
	setup := strings.ReplaceAll(verifParentSetup, "SUB", ":")
	test := setup + sub + "\n"
	if inFunc {
		// the isolating context runs inside a function with locals
		test = strings.ReplaceAll(verifParentSetup, "SUB", sub) + "fn\n"
		setup = setup + "fn\n"
	}
	pRef, err1 := syntax.NewParser().Parse(strings.NewReader(setup), "")
	pTest, err2 := syntax.NewParser().Parse(strings.NewReader(test), "")
	verifAssume(err1 == nil && err2 == nil)
	var o1, e1, o2, e2 bytes.Buffer
	ref := verifParentRunner(x, idx, &o1, &e1)
	tst := verifParentRunner(x, idx, &o2, &e2)
	ctx := context.Background()
	// both parents start with a directory stack of three entries, so that the
	// stack operations of a subshell have something to write into
	for _, r := range []*Runner{ref, tst} {
		r.Reset()
		r.dirStack = append(r.dirStack, "/p1", "/p2")
	}
	ref.Run(ctx, pRef)
	ok := verifNoPanic(func() { tst.Run(ctx, pTest) })
	verifAssert(ok, "running the subshell panicked")
	// the helper functions hold the command list itself
	for _, r := range []*Runner{ref, tst} {
		delete(r.Funcs, "fn")
		delete(r.Funcs, "fn2")
	}
	verifAssert(verifSameShell(tst, ref), "a subshell changed its parent shell")
	verifReach("end")
}
