package interp

import (
	"bytes"
	"context"
	"io"
	"io/fs"
	"strings"

	"mvdan.cc/sh/v3/expand"
	"mvdan.cc/sh/v3/syntax"
)

func verifLang(k int) syntax.LangVariant {
	switch k {
	case 0:
		return syntax.LangBash
	case 1:
		return syntax.LangPOSIX
	case 2:
		return syntax.LangMirBSDKorn
	case 3:
		return syntax.LangBats
	default:
		return syntax.LangZsh
	}
}

// verifRunner builds a Runner whose handlers never touch the real system.
func verifRunner(out, errb *bytes.Buffer, opts ...RunnerOption) *Runner {
	base := []RunnerOption{
		Env(expand.ListEnviron("HOME=/h", "PATH=/bin")),
		Dir("/"),
		StdIO(nil, out, errb),
		ExecHandlers(func(next ExecHandlerFunc) ExecHandlerFunc {
			return func(ctx context.Context, args []string) error { return ExitStatus(127) }
		}),
		OpenHandler(func(ctx context.Context, path string, flag int, perm fs.FileMode) (io.ReadWriteCloser, error) {
			return nil, &fs.PathError{Op: "open", Path: path, Err: fs.ErrNotExist}
		}),
		ReadDirHandler2(func(ctx context.Context, path string) ([]fs.DirEntry, error) {
			return nil, &fs.PathError{Op: "open", Path: path, Err: fs.ErrNotExist}
		}),
		StatHandler(func(ctx context.Context, name string, followSymlinks bool) (fs.FileInfo, error) {
			return nil, &fs.PathError{Op: "stat", Path: name, Err: fs.ErrNotExist}
		}),
		AccessHandler(func(ctx context.Context, path string, mode AccessMode) error {
			return &fs.PathError{Op: "access", Path: path, Err: fs.ErrNotExist}
		}),
	}
	r, err := New(append(base, opts...)...)
	verifAssume(err == nil)
	return r
}

// Verif_c28_run: Run never panics on any n-byte program that parses.
func Verif_c28_run() {
	n := verifParam("n")
	lang := verifLang(verifParam("lang"))
	src := verifString("src", n)
	alpha := "ab10_ \t\n\\'\"$`{}()[]<>|&;#=+-*?!@%/:,.~^"
	for i := 0; i < len(src); i++ {
		verifAssume(verifInSet(src[i], alpha))
	}
	f, err := syntax.NewParser(syntax.Variant(lang)).Parse(strings.NewReader(src), "")
	verifAssume(err == nil)
	var out, errb bytes.Buffer
	r := verifRunner(&out, &errb)
	ok := verifNoPanic(func() { r.Run(context.Background(), f) })
	verifAssert(ok, "Runner.Run panicked")
	verifReach("end")
}

var verifBuiltins = [...]string{"shift", "break", "continue", "return", "exit", "set", "unset", "getopts", "wait", "echo", "printf",
	"read", "shopt", "type", "alias", "unalias", "local", "declare", "trap", "test", "[", "cd", "pwd", "eval", "let", "command",
	"builtin", "umask", "export", "readonly", "true", "dirs", "pushd", "popd", "mapfile", "hash", "fg", "bg", "kill", "times", "ulimit", "typeset", "nameref", "source", ".", "exec", "readarray", "false", ":", "jobs", "disown", "complete", "caller", "help", "bind", "enable", "suspend", "logout"}

var verifArgIDs = [...]string{"arg0", "arg1", "arg2", "arg3"}
var verifArg2IDs = [...]string{"brg0", "brg1", "brg2", "brg3"}

func verifArgWords(ids []string, nargs, alen int) []*syntax.Word {
	var ws []*syntax.Word
	for i := 0; i < nargs; i++ {
		a := verifString(ids[i], alen)
		for j := 0; j < len(a); j++ {
			verifAssume(verifInSet(a[j], "-+019a:=[] x"))
		}
		ws = append(ws, &syntax.Word{Parts: []syntax.WordPart{&syntax.SglQuoted{Value: a}}})
	}
	return ws
}

func verifCall(name string, args []*syntax.Word) *syntax.Stmt {
	w := []*syntax.Word{{Parts: []syntax.WordPart{&syntax.Lit{Value: name}}}}
	return &syntax.Stmt{Cmd: &syntax.CallExpr{Args: append(w, args...)}}
}

// Verif_c28_builtin: a builtin called with arbitrary arguments (twice, with
// different arguments, in a shell that has positional parameters) never panics.
func Verif_c28_builtin() {
	bi := verifParam("builtin")
	if bi < 0 {
		bi = verifChoice("builtin", len(verifBuiltins))
	}
	name := verifBuiltins[bi]
	nargs, alen := verifParam("nargs"), verifParam("alen")
	var out, errb bytes.Buffer
	r := verifRunner(&out, &errb, Params("--", "-ab", "p2", "p3"))
	ctx := context.Background()
	first := verifCall(name, verifArgWords(verifArgIDs[:], nargs, alen))
	ok := verifNoPanic(func() { r.Run(ctx, first) })
	verifAssert(ok, "builtin panicked")
	if verifParam("twice") != 0 && !r.Exited() {
		// same builtin again with other arguments, after changing the positional parameters
		second := verifCall(name, verifArgWords(verifArg2IDs[:], nargs, alen))
		setp := verifCall("set", []*syntax.Word{{Parts: []syntax.WordPart{&syntax.Lit{Value: "--"}}}, {Parts: []syntax.WordPart{&syntax.Lit{Value: "-a"}}}})
		ok = verifNoPanic(func() {
			r.Run(ctx, setp)
			r.Run(ctx, second)
		})
		verifAssert(ok, "builtin panicked on its second call")
	}
	verifReach("end")
}

var verifTestTokens = [...]string{"-n", "a", "=", "!", "(", ")", "-a", "-o", "-eq", "1", "", "-e", "<", "!=", "=~", "-nt", "-z", "]"}

// Verif_c28_test: test and [ with arbitrary sequences of operator and operand
// tokens never panic.
func Verif_c28_test() {
	nargs, ntok := verifParam("nargs"), verifParam("ntok")
	name := "test"
	var ws []*syntax.Word
	for i := 0; i < nargs; i++ {
		t := verifTestTokens[verifChoice(verifArgIDs[i%4]+string(rune('0'+i/4)), ntok)]
		ws = append(ws, &syntax.Word{Parts: []syntax.WordPart{&syntax.SglQuoted{Value: t}}})
	}
	if verifParam("bracket") != 0 {
		name = "["
		ws = append(ws, &syntax.Word{Parts: []syntax.WordPart{&syntax.Lit{Value: "]"}}})
	}
	var out, errb bytes.Buffer
	r := verifRunner(&out, &errb)
	ok := verifNoPanic(func() { r.Run(context.Background(), verifCall(name, ws)) })
	verifAssert(ok, "test builtin panicked")
	verifReach("end")
}

// programs exercising interpreter paths that need more than three bytes; the
// byte 0x01 is a hole filled by one symbolic byte of the shell alphabet.
var verifRunCorpus = [...]string{
	"declare -A m; m[i]=5; echo ${m[\x01i]}", "declare -A m; m[i\x011]=5; echo ${m[@]}", "declare -A m=([\x01i]=5); echo ${!m[@]}", "declare -A m; : ${m[i\x01]=5}; echo ${m[i]}", "declare -A m=([a]=1); echo ${m[a\x01]} ${#m[@]}",
	"a=(1 2 3); echo ${a[\x011]}", "a=(1 2 3); a[1\x01]=5; echo ${a[@]}", "a=(1 2 3); echo ${a[@]:\x01:1}", "a=(1 2); a+=(\x01); echo ${#a[@]}", "a=([\x011]=x); echo ${a[@]}", "unset a[\x01]; a=(1); unset 'a[0\x01]'",
	"x=abc; echo ${x:\x01}", "x=abc; echo ${x:1:\x01}", "x=abc; echo ${x\x01b}", "x=abc; echo ${x/\x01/y}", "x=abc; echo ${x^\x01}", "x=abc; echo ${x@\x01}", "x=abc; echo ${#x\x01}", "x=abc; echo ${!x\x01}", "x=abc; echo ${x:-\x01} ${x:+\x01} ${y:=\x01}", "echo ${y:?\x01}", "set -- a b; echo ${@:\x01} ${*:1:\x01} ${#\x01}",
	// the same operators on unset and empty values
	"echo ${y@\x01} ${y^\x01} ${y,\x01} ${y:\x01} ${y/\x01} ${y#\x01} ${y%\x01} ${#y\x01}", "y=; echo ${y@\x01} ${y^\x01} ${y,\x01} ${y:\x01} ${y/\x01} ${y#\x01} ${y%\x01}", "echo ${3@\x01} ${9:\x01}", "a=(); echo ${a[0]@\x01} ${a[@]@\x01} ${a[@]:\x01}", "declare -A m; echo ${m[k]@\x01} ${m[@]\x01}",
	"echo $((1 \x01 2))", "echo $((x\x01))", "x=1; echo $((x \x01= 2)) $x", "((x\x01)); echo $?", "let x\x011; echo $x", "for ((i=0; i<2; i++\x01)); do echo $i; done", "echo $((1 ? 2 \x01 3))", "a=(1 2); echo $((a[\x01]))", "echo $((2 ** \x011)) $((1 / \x010))",
	"[[ a \x01 b ]]; echo $?", "[[ -\x01 a ]]; echo $?", "[[ a =~ \x01 ]]; echo $?", "[[ a == [\x01] ]]; echo $?", "[ a \x01 b ]; echo $?", "test -\x01 a; echo $?", "case a in \x01) echo m;; esac", "case a\x01 in a*) echo m;; esac", "case a in a) echo 1;\x01& b) echo 2;; esac",
	"f() { echo $1; return \x01; }; f a", "f() { local x=\x01; echo $x; }; f", "f() { shift \x01; echo $#; }; f a b", "set -\x01; echo $-", "set -o \x01", "shopt -s \x01", "trap 'echo t' \x01; kill -0 $$", "eval 'echo \x01'", "read x <<< \x01; echo $x", "getopts a\x01 o -a; echo $o", "printf '%\x01' 1", "echo -\x01 a",
	"echo a{1,\x01}b", "echo {1..\x01}", "echo {a..c..\x01}", "echo ~\x01", "echo \"$@\x01\" \"$*\" $#", "x='a b'; echo $x\x01 \"$x\"", "IFS=\x01; x=a:b; echo $x", "echo $(echo \x01)", "echo `echo \x01`", "cat <<E\n$x\x01\nE", "cat <<-E\n\t\x01\nE", "a \x01 b", "a \x01& b; wait", "{ echo a; } \x01 x", "( exit \x01 ); echo $?", "! \x01; echo $?", "coproc \x01", "select x in a; do break; done <<< \x011",
	"declare -\x01 v=1; echo $v", "readonly v=1; v\x01=2; echo $v", "export v\x01; echo $v", "local\x01 x", "unset -\x01 x", "x=1 y\x01=2 env", "typeset -\x01 a", "nameref r=x; r\x01=1", "declare -n r=x; x=1; echo $r\x01", "alias a\x01=b; a", "type \x01", "command -\x01 echo", "cd \x01", "pushd \x01; popd", "umask \x01", "exit \x01",
}

// Verif_c28_corpus: Run never panics on the corpus programs with one symbolic byte.
func Verif_c28_corpus() {
	k := verifParam("prog")
	if k < 0 {
		k = verifChoice("prog", len(verifRunCorpus))
	}
	lang := verifLang(verifParam("lang"))
	src := []byte(verifRunCorpus[k])
	hole := verifByte("hole")
	verifAssume(verifInSet(hole, "ab10_ \t\n\\'\"$`{}()[]<>|&;#=+-*?!@%/:,.~^uUQLEPAKk"))
	for i := range src {
		if src[i] == 1 {
			src[i] = hole
		}
	}
	f, err := syntax.NewParser(syntax.Variant(lang)).Parse(bytes.NewReader(src), "")
	verifAssume(err == nil)
	var out, errb bytes.Buffer
	r := verifRunner(&out, &errb, Params("p1", "p2"))
	ok := verifNoPanic(func() { r.Run(context.Background(), f) })
	verifAssert(ok, "Runner.Run panicked")
	verifReach("end")
}
