package interp

import (
	"bytes"
	"context"
	"io/fs"
	"sort"
	"strings"

	"mvdan.cc/sh/v3/syntax"
)

// ---- a small directory tree and the reference for bash's pathname expansion ----

type verifEntry struct {
	name string
	dir  bool
}

func (e verifEntry) Name() string { return e.name }
func (e verifEntry) IsDir() bool  { return e.dir }
func (e verifEntry) Type() fs.FileMode {
	if e.dir {
		return fs.ModeDir
	}
	return 0
}
func (e verifEntry) Info() (fs.FileInfo, error) { return nil, fs.ErrInvalid }

// the tree below /w (the working directory); directories map to their entries
var verifTree = map[string][]verifEntry{
	"/w":      {{".e", true}, {".h", false}, {"B", false}, {"a", false}, {"ab", false}, {"b", false}, {"d", true}},
	"/w/d":    {{".y", false}, {"dd", true}, {"x", false}},
	"/w/d/dd": {{"ab", false}},
	"/w/.e":   {{"a", false}},
}

func verifCleanPath(path string) string {
	var parts []string
	for _, p := range strings.Split(path, "/") {
		switch p {
		case "", ".":
		case "..":
			if len(parts) > 0 {
				parts = parts[:len(parts)-1]
			}
		default:
			parts = append(parts, p)
		}
	}
	return "/" + strings.Join(parts, "/")
}

func verifReadDir(path string) ([]fs.DirEntry, error) {
	path = verifCleanPath(path)
	ents, ok := verifTree[path]
	if !ok {
		// a regular file is "not a directory", anything else does not exist
		if i := strings.LastIndexByte(path, '/'); i >= 0 {
			par := path[:i]
			if par == "" {
				par = "/"
			}
			for _, e := range verifTree[par] {
				if e.name == path[i+1:] {
					return nil, &fs.PathError{Op: "open", Path: path, Err: fs.ErrInvalid}
				}
			}
		}
		return nil, &fs.PathError{Op: "open", Path: path, Err: fs.ErrNotExist}
	}
	out := make([]fs.DirEntry, len(ents))
	for i, e := range ents {
		out[i] = e
	}
	return out, nil
}

func refFold(c byte, nocase bool) byte {
	if nocase && c >= 'A' && c <= 'Z' {
		return c + 32
	}
	return c
}

// refNameMatch: component pattern p (literal characters, '*', '?') against a name.
func refNameMatch(p, s string, nocase bool) bool {
	if p == "" {
		return s == ""
	}
	switch p[0] {
	case '*':
		for k := 0; k <= len(s); k++ {
			if refNameMatch(p[1:], s[k:], nocase) {
				return true
			}
		}
		return false
	case '?':
		return s != "" && refNameMatch(p[1:], s[1:], nocase)
	}
	return s != "" && refFold(s[0], nocase) == refFold(p[0], nocase) && refNameMatch(p[1:], s[1:], nocase)
}

func refHasMeta(p string) bool { return strings.ContainsAny(p, "*?") }

type refGlobMatch struct{ disp, real string }

// refGlobWord: the fields bash produces for the unquoted word pat in /w.
// kind 2: outside the reference.
func refGlobWord(pat string, dotglob, nullglob, nocase, noglob bool) ([]string, int) {
	if pat == "" || pat[0] == '/' || strings.Contains(pat, "//") || strings.ContainsAny(pat, "[]\\") {
		return nil, 2
	}
	if noglob || !refHasMeta(pat) {
		return []string{pat}, 0
	}
	comps := strings.Split(pat, "/")
	cur := []refGlobMatch{{"", "/w"}}
	for i, comp := range comps {
		last := i == len(comps)-1
		var next []refGlobMatch
		if comp == "" { // trailing slash: only directories qualify
			for _, m := range cur {
				if _, ok := verifTree[m.real]; ok {
					next = append(next, refGlobMatch{m.disp + "/", m.real})
				}
			}
			cur = next
			continue
		}
		if comp == "." || comp == ".." {
			return nil, 2
		}
		for _, m := range cur {
			ents, isDir := verifTree[m.real]
			if !isDir {
				continue
			}
			for _, e := range ents {
				if refHasMeta(comp) {
					if e.name[0] == '.' && comp[0] != '.' && !dotglob {
						continue
					}
					if !refNameMatch(comp, e.name, nocase) {
						continue
					}
				} else if e.name != comp {
					continue
				}
				if !last && !e.dir {
					continue
				}
				d := e.name
				if m.disp != "" {
					d = m.disp + "/" + e.name
				}
				next = append(next, refGlobMatch{d, m.real + "/" + e.name})
			}
		}
		cur = next
	}
	if len(cur) == 0 {
		if nullglob {
			return nil, 0
		}
		return []string{pat}, 0
	}
	var out []string
	for _, m := range cur {
		out = append(out, m.disp)
	}
	sort.Strings(out)
	return out, 0
}

var verifGlobOpts = [...]string{"", "shopt -s dotglob", "shopt -s nullglob", "shopt -s nocaseglob", "set -f"}

// Verif_c19_glob: the interpreter expands every n-byte unquoted word over
// * ? a b d B x . / in the tree above, under each globbing option, to the
// sorted list bash produces.
func Verif_c19_glob() {
	n := verifParam("n")
	pat := verifString("pat", n)
	for i := 0; i < len(pat); i++ {
		verifAssume(verifInSet(pat[i], "*?abdBx./"))
	}
	// any combination of the four options
	opt := verifChoice("opt", 16)
	dot, null, nocase, noglob := opt&1 != 0, opt&2 != 0, opt&4 != 0, opt&8 != 0
	want, kind := refGlobWord(pat, dot, null, nocase, noglob)
	verifAssume(kind == 0)
	src := ""
	for i := 1; i <= 4; i++ {
		if opt&(1<<(i-1)) != 0 {
			src += verifGlobOpts[i] + "\n"
		}
	}
	src += "printf '%s\\n' " + pat + "\n"
	f, err := syntax.NewParser().Parse(strings.NewReader(src), "")
	verifAssume(err == nil)
	var out, errb bytes.Buffer
	r := verifRunner(&out, &errb, ReadDirHandler2(func(ctx context.Context, path string) ([]fs.DirEntry, error) {
		return verifReadDir(path)
	}))
	r.Dir = "/w"
	rerr := r.Run(context.Background(), f)
	verifAssert(rerr == nil, "pathname expansion: the program fails")
	exp := strings.Join(want, "\n") + "\n"
	verifObserve("out", out.String())
	verifAssert(out.String() == exp, "pathname expansion differs from bash")
	verifReach("end")
}
