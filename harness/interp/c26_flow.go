package interp

import (
	"bytes"
	"context"
	"strconv"
	"strings"

	"mvdan.cc/sh/v3/syntax"
)

// A small command language for set -e, lists, negation, conditionals, groups,
// subshells, loops and break/continue levels.
type flowNode struct {
	kind int
	kids []*flowNode
	name string // of the function, for flowCall
}

// defs numbers the functions and returns their definitions, inner ones first.
func (n *flowNode) defs(count *int) string {
	out := ""
	for _, k := range n.kids {
		out += k.defs(count)
	}
	if n.kind == flowCall {
		*count++
		n.name = "f" + string(rune('0'+*count))
		// loop counters of the body get names of their own
		out += n.name + "() { " + n.kids[0].textAt(10**count) + "; }\n"
	}
	return out
}

const (
	flowTrue = iota
	flowFalse
	flowEcho
	flowBreak
	flowBreak2
	flowCont
	flowCont2
	flowRet  // return (the status of the last command)
	flowRet1 // return 1
	flowNot
	flowSub
	flowFor
	flowCFor  // for ((j=0; j<2; j++))
	flowWhile // w=0; while [ $((w+=1)) -le 2 ]
	flowRedir // { ...; } </nonexistent/f : the group is not run
	flowCall  // a call of a function whose body is the kid
	flowAnd
	flowOr
	flowIf
	flowSeq
	flowIfElse
	flowKinds
)

var flowArity = [flowKinds]int{0, 0, 0, 0, 0, 0, 0, 0, 0, 1, 1, 1, 1, 1, 1, 1, 2, 2, 2, 2, 3}

// verifFlowGen builds a tree of at most budget nodes from choices made by pick;
// ok is false when the chosen kind does not fit the budget. Every tree of up
// to budget nodes is produced by exactly one sequence of choices.
func verifFlowGen(budget int, path string, pick func(id string, n int) int) (n *flowNode, used int, ok bool) {
	kind := pick("k"+path, flowKinds)
	ar := flowArity[kind]
	if 1+ar > budget {
		return nil, 0, false
	}
	n = &flowNode{kind: kind}
	used = 1
	for i := 0; i < ar; i++ {
		// leave one node for each of the kids still to come
		kid, u, ok := verifFlowGen(budget-used-(ar-1-i), path+string(rune('a'+i)), pick)
		if !ok {
			return nil, 0, false
		}
		n.kids = append(n.kids, kid)
		used += u
	}
	return n, used, true
}

// hasDoubleNot: "! !", which the parser under test rejects, or a negated
// command whose redirection fails, which bash does not negate.
func (n *flowNode) hasDoubleNot() bool {
	if n.kind == flowNot {
		switch n.kids[0].kind {
		case flowNot, flowRedir, flowRet, flowRet1: // "! return" is not modelled
			return true
		}
	}
	for _, k := range n.kids {
		if k.hasDoubleNot() {
			return true
		}
	}
	return false
}

// hasNotCompound: a negated group, conditional or loop. bash runs the ERR trap
// for failing commands inside it although it ignores them for set -e.
func (n *flowNode) hasNotCompound() bool {
	if n.kind == flowNot {
		switch k := n.kids[0]; {
		case k.isList(), k.kind == flowIf, k.kind == flowIfElse, k.kind == flowFor, k.kind == flowCFor, k.kind == flowWhile, k.kind == flowRedir:
			return true
		}
	}
	for _, k := range n.kids {
		if k.hasNotCompound() {
			return true
		}
	}
	return false
}

func (n *flowNode) isList() bool {
	return n.kind == flowAnd || n.kind == flowOr || n.kind == flowSeq
}

// text renders the tree; operands of !, && and || that are lists themselves
// are wrapped in braces (the right operand always, the left one of && and ||
// only for a sequence, since the lists associate to the left).
func (n *flowNode) text() string { return n.textAt(0) }

// textAt: d is the number of enclosing loops, used to name loop counters.
func (n *flowNode) textAt(d int) string {
	dd := strconv.Itoa(d)
	wrap := func(k *flowNode, always bool) string {
		if k.kind == flowSeq || k.kind == flowWhile || (always && k.isList()) {
			return "{ " + k.textAt(d) + "; }"
		}
		return k.textAt(d)
	}
	switch n.kind {
	case flowTrue:
		return "true"
	case flowFalse:
		return "false"
	case flowEcho:
		return "echo e"
	case flowBreak:
		return "break"
	case flowBreak2:
		return "break 2"
	case flowCont:
		return "continue"
	case flowCont2:
		return "continue 2"
	case flowRet:
		return "return"
	case flowRet1:
		return "return 1"
	case flowCall:
		return n.name
	case flowNot:
		return "! " + wrap(n.kids[0], true)
	case flowSub:
		return "( " + n.kids[0].textAt(d) + " )"
	case flowFor:
		return "for i in 1 2; do " + n.kids[0].textAt(d+1) + "; done"
	case flowCFor:
		return "for ((j" + dd + "=0; j" + dd + "<2; j" + dd + "++)); do " + n.kids[0].textAt(d+1) + "; done"
	case flowWhile:
		return "w" + dd + "=0; while [ $((w" + dd + "+=1)) -le 2 ]; do " + n.kids[0].textAt(d+1) + "; done"
	case flowRedir:
		return "{ " + n.kids[0].textAt(d) + "; } </nonexistent/f"
	case flowAnd:
		return wrap(n.kids[0], false) + " && " + wrap(n.kids[1], true)
	case flowOr:
		return wrap(n.kids[0], false) + " || " + wrap(n.kids[1], true)
	case flowIf:
		return "if " + n.kids[0].textAt(d) + "; then " + n.kids[1].textAt(d) + "; fi"
	case flowSeq:
		return n.kids[0].textAt(d) + "; " + n.kids[1].textAt(d)
	case flowIfElse:
		return "if " + n.kids[0].textAt(d) + "; then " + n.kids[1].textAt(d) + "; else " + n.kids[2].textAt(d) + "; fi"
	}
	return ""
}

// refFlow runs a tree the way bash does. Validated against bash 5.2 over every
// tree of up to five nodes, with and without set -e
// (tools/refflow_validation_test.go.txt).
type refFlow struct {
	out     []byte
	errexit bool
	depth   int // enclosing loops
	brk     int // loops still to break out of
	cont    int // loops still to continue
	exited  bool
	status  int
	outside bool // a case the reference does not model
	errTrap bool // trap 'echo T' ERR is set (not inherited by subshells and functions)
	inFunc  bool
	ret     bool // a return is unwinding to its function
	retSt   int
	last    int // $?
	ivar    string // the variable of the for-in loops
}

func (s *refFlow) unwinding() bool {
	return s.exited || s.brk > 0 || s.cont > 0 || s.outside || s.ret
}

// fail applies set -e to a command that finished with a non-zero status.
func (s *refFlow) fail(st int, ignore bool) {
	if st != 0 && !ignore {
		if s.errTrap {
			s.out = append(s.out, "T\n"...)
		}
		if s.errexit {
			s.exited, s.status = true, st
		}
	}
}

func (s *refFlow) run(n *flowNode, ignore bool) int {
	st := s.run1(n, ignore)
	s.last = st
	return st
}

func (s *refFlow) run1(n *flowNode, ignore bool) int {
	switch n.kind {
	case flowRet, flowRet1:
		if !s.inFunc {
			s.outside = true // an error message
			return 0
		}
		s.ret, s.retSt = true, s.last
		if n.kind == flowRet1 {
			s.retSt = 1
		} else if s.last < 0 {
			s.outside = true
		}
		return s.retSt
	case flowCall:
		depth, inFunc, errTrap := s.depth, s.inFunc, s.errTrap
		s.depth, s.inFunc, s.errTrap = 0, true, false
		st := s.run(n.kids[0], ignore)
		s.depth, s.inFunc, s.errTrap = depth, inFunc, errTrap
		if s.ret {
			s.ret = false
			st = s.retSt
		}
		if s.exited || s.outside {
			return st
		}
		s.fail(st, ignore)
		return st
	case flowTrue:
		return 0
	case flowFalse:
		s.fail(1, ignore)
		return 1
	case flowEcho:
		s.out = append(s.out, "e\n"...)
		return 0
	case flowBreak, flowBreak2, flowCont, flowCont2:
		if s.depth == 0 {
			s.outside = true // an error message and, in a subshell, a quirk
			return 0
		}
		k := 1
		if n.kind == flowBreak2 || n.kind == flowCont2 {
			k = 2
		}
		if k > s.depth {
			k = s.depth
		}
		if n.kind == flowBreak || n.kind == flowBreak2 {
			s.brk = k
		} else {
			s.cont = k
		}
		return 0
	case flowNot:
		if n.kids[0].kind == flowNot {
			s.outside = true // "! !" is rejected by the parser under test
			return 0
		}
		st := s.run(n.kids[0], true)
		if s.exited || s.outside || s.ret {
			return st
		}
		// the status of break and continue is inverted as well
		if st == 0 {
			return 1
		}
		return 0
	case flowAnd, flowOr:
		st := s.run(n.kids[0], true)
		if s.unwinding() {
			return st
		}
		if (st == 0) != (n.kind == flowAnd) {
			return st
		}
		return s.run(n.kids[1], ignore)
	case flowIf, flowIfElse:
		st := s.run(n.kids[0], true)
		if s.unwinding() {
			return st
		}
		if st == 0 {
			return s.run(n.kids[1], ignore)
		}
		if n.kind == flowIfElse {
			return s.run(n.kids[2], ignore)
		}
		return 0
	case flowSeq:
		st := s.run(n.kids[0], ignore)
		if s.unwinding() {
			return st
		}
		return s.run(n.kids[1], ignore)
	case flowRedir:
		// the redirection fails: the group is not run, its status is 1
		s.fail(1, ignore)
		return 1
	case flowFor, flowCFor, flowWhile:
		s.depth++
		st := 0
		for i := 0; i < 2; i++ {
			switch n.kind {
			case flowFor:
				s.ivar = string(rune('1' + i))
			case flowWhile:
				s.last = 0 // the condition succeeded
			case flowCFor:
				s.last = -1 // $? after the arithmetic condition is not modelled
			}
			st = s.run(n.kids[0], ignore)
			if s.exited || s.outside || s.ret {
				break
			}
			if s.brk > 0 {
				s.brk--
				break
			}
			if s.cont > 0 {
				s.cont--
				if s.cont > 0 {
					break
				}
			}
		}
		s.depth--
		return st
	case flowSub:
		if k := n.kids[0]; k.kind == flowNot && (k.kids[0].isList() || k.kids[0].kind == flowWhile || k.kids[0].kind == flowRedir) && s.errexit {
			// bash 5.2 quirk: in "( ! { false; true; } )" under set -e the
			// group is left at its first failing command
			s.outside = true
			return 0
		}
		c := &refFlow{out: s.out, errexit: s.errexit, inFunc: s.inFunc, last: s.last, ivar: s.ivar}
		st := c.run(n.kids[0], ignore)
		s.out = c.out
		if c.ret { // a return ends the subshell
			st = c.retSt
		}
		if c.outside {
			s.outside = true
			return 0
		}
		if c.exited {
			st = c.status
		}
		s.fail(st, ignore)
		return st
	}
	return 0
}

// refFlowProgram returns the program text for the tree, what bash prints and
// its exit status; ok is false where the reference does not model bash.
// trap: 0 none, 1 an ERR trap printing T, 2 an EXIT trap printing X.
func refFlowProgram(n *flowNode, errexit bool, trap int) (src, out string, status int, ok bool) {
	if n.hasDoubleNot() {
		return "", "", 0, false // rejected by the parser under test
	}
	if trap == 1 && n.hasNotCompound() {
		return "", "", 0, false // bash is irregular here, see hasNotCompound
	}
	if errexit {
		src = "set -e\n"
	}
	switch trap {
	case 1:
		src += "trap 'echo T' ERR\n"
	case 2:
		src += "trap 'echo X' EXIT\n"
	}
	count := 0
	src += n.defs(&count)
	src += n.text() + "\necho end $? i=$i\n"
	s := &refFlow{errexit: errexit, errTrap: trap == 1}
	st := s.run(n, false)
	if s.outside {
		return src, "", 0, false
	}
	tail := ""
	if trap == 2 {
		tail = "X\n"
	}
	if s.exited {
		return src, string(s.out) + tail, s.status, true
	}
	return src, string(s.out) + "end " + string(rune('0'+st)) + " i=" + s.ivar + "\n" + tail, 0, true
}

// Verif_c26_flow: every command tree of up to size nodes, with and without
// set -e, and with an ERR or EXIT trap (parameter trap), prints what bash
// prints and exits with bash's status.
func Verif_c26_flow() {
	n, _, ok := verifFlowGen(verifParam("size"), "", verifChoice)
	verifAssume(ok)
	errexit := verifChoice("errexit", 2) == 1
	src, want, wantSt, ok := refFlowProgram(n, errexit, verifParam("trap"))
	verifAssume(ok)
	f, err := syntax.NewParser().Parse(strings.NewReader(src), "")
	verifAssert(err == nil, "a program bash accepts is rejected")
	if err != nil {
		return
	}
	var out, errb bytes.Buffer
	r := verifRunner(&out, &errb)
	rerr := r.Run(context.Background(), f)
	got := 0
	if rerr != nil {
		st, isExit := rerr.(ExitStatus)
		verifAssert(isExit, "Run fails with an error that is no exit status")
		got = int(st)
	}
	verifObserve("src", src)
	verifObserve("out", out.String())
	verifAssert(out.String() == want, "standard output differs from bash's")
	verifAssert(got == wantSt, "exit status differs from bash's")
	verifReach("end")
}
