package interp

import (
	"bytes"
	"context"
	"strings"

	"mvdan.cc/sh/v3/syntax"
)

// A small command language for set -e, lists, negation, conditionals, groups,
// subshells, loops and break/continue levels.
type flowNode struct {
	kind int
	kids []*flowNode
}

const (
	flowTrue = iota
	flowFalse
	flowEcho
	flowBreak
	flowBreak2
	flowCont
	flowCont2
	flowNot
	flowSub
	flowFor
	flowAnd
	flowOr
	flowIf
	flowSeq
	flowIfElse
	flowKinds
)

var flowArity = [flowKinds]int{0, 0, 0, 0, 0, 0, 0, 1, 1, 1, 2, 2, 2, 2, 3}

// verifFlowGen builds a tree of at most budget nodes from choices made by pick;
// ok is false when the chosen kind does not fit the budget. Every tree of up
// to budget nodes is produced by exactly one sequence of choices.
func verifFlowGen(budget int, path string, pick func(id string, n int) int) (n *flowNode, used int, ok bool) {
	kind := pick("k"+path, flowKinds)
	ar := flowArity[kind]
	if 1+ar > budget {
		return nil, 0, false
	}
	n = &flowNode{kind: kind}
	used = 1
	for i := 0; i < ar; i++ {
		// leave one node for each of the kids still to come
		kid, u, ok := verifFlowGen(budget-used-(ar-1-i), path+string(rune('a'+i)), pick)
		if !ok {
			return nil, 0, false
		}
		n.kids = append(n.kids, kid)
		used += u
	}
	return n, used, true
}

func (n *flowNode) hasDoubleNot() bool {
	if n.kind == flowNot && n.kids[0].kind == flowNot {
		return true
	}
	for _, k := range n.kids {
		if k.hasDoubleNot() {
			return true
		}
	}
	return false
}

func (n *flowNode) isList() bool {
	return n.kind == flowAnd || n.kind == flowOr || n.kind == flowSeq
}

// text renders the tree; operands of !, && and || that are lists themselves
// are wrapped in braces (the right operand always, the left one of && and ||
// only for a sequence, since the lists associate to the left).
func (n *flowNode) text() string {
	wrap := func(k *flowNode, always bool) string {
		if k.kind == flowSeq || (always && k.isList()) {
			return "{ " + k.text() + "; }"
		}
		return k.text()
	}
	switch n.kind {
	case flowTrue:
		return "true"
	case flowFalse:
		return "false"
	case flowEcho:
		return "echo e"
	case flowBreak:
		return "break"
	case flowBreak2:
		return "break 2"
	case flowCont:
		return "continue"
	case flowCont2:
		return "continue 2"
	case flowNot:
		return "! " + wrap(n.kids[0], true)
	case flowSub:
		return "( " + n.kids[0].text() + " )"
	case flowFor:
		return "for i in 1 2; do " + n.kids[0].text() + "; done"
	case flowAnd:
		return wrap(n.kids[0], false) + " && " + wrap(n.kids[1], true)
	case flowOr:
		return wrap(n.kids[0], false) + " || " + wrap(n.kids[1], true)
	case flowIf:
		return "if " + n.kids[0].text() + "; then " + n.kids[1].text() + "; fi"
	case flowSeq:
		return n.kids[0].text() + "; " + n.kids[1].text()
	case flowIfElse:
		return "if " + n.kids[0].text() + "; then " + n.kids[1].text() + "; else " + n.kids[2].text() + "; fi"
	}
	return ""
}

// refFlow runs a tree the way bash does. Validated against bash 5.2 over every
// tree of up to five nodes, with and without set -e
// (tools/refflow_validation_test.go.txt).
type refFlow struct {
	out     []byte
	errexit bool
	depth   int // enclosing loops
	brk     int // loops still to break out of
	cont    int // loops still to continue
	exited  bool
	status  int
	outside bool // a case the reference does not model
}

func (s *refFlow) unwinding() bool { return s.exited || s.brk > 0 || s.cont > 0 || s.outside }

// fail applies set -e to a command that finished with a non-zero status.
func (s *refFlow) fail(st int, ignore bool) {
	if st != 0 && s.errexit && !ignore {
		s.exited, s.status = true, st
	}
}

func (s *refFlow) run(n *flowNode, ignore bool) int {
	switch n.kind {
	case flowTrue:
		return 0
	case flowFalse:
		s.fail(1, ignore)
		return 1
	case flowEcho:
		s.out = append(s.out, "e\n"...)
		return 0
	case flowBreak, flowBreak2, flowCont, flowCont2:
		if s.depth == 0 {
			s.outside = true // an error message and, in a subshell, a quirk
			return 0
		}
		k := 1
		if n.kind == flowBreak2 || n.kind == flowCont2 {
			k = 2
		}
		if k > s.depth {
			k = s.depth
		}
		if n.kind == flowBreak || n.kind == flowBreak2 {
			s.brk = k
		} else {
			s.cont = k
		}
		return 0
	case flowNot:
		if n.kids[0].kind == flowNot {
			s.outside = true // "! !" is rejected by the parser under test
			return 0
		}
		st := s.run(n.kids[0], true)
		if s.exited || s.outside {
			return st
		}
		// the status of break and continue is inverted as well
		if st == 0 {
			return 1
		}
		return 0
	case flowAnd, flowOr:
		st := s.run(n.kids[0], true)
		if s.unwinding() {
			return st
		}
		if (st == 0) != (n.kind == flowAnd) {
			return st
		}
		return s.run(n.kids[1], ignore)
	case flowIf, flowIfElse:
		st := s.run(n.kids[0], true)
		if s.unwinding() {
			return st
		}
		if st == 0 {
			return s.run(n.kids[1], ignore)
		}
		if n.kind == flowIfElse {
			return s.run(n.kids[2], ignore)
		}
		return 0
	case flowSeq:
		st := s.run(n.kids[0], ignore)
		if s.unwinding() {
			return st
		}
		return s.run(n.kids[1], ignore)
	case flowFor:
		s.depth++
		st := 0
		for i := 0; i < 2; i++ {
			st = s.run(n.kids[0], ignore)
			if s.exited || s.outside {
				break
			}
			if s.brk > 0 {
				s.brk--
				break
			}
			if s.cont > 0 {
				s.cont--
				if s.cont > 0 {
					break
				}
			}
		}
		s.depth--
		return st
	case flowSub:
		if k := n.kids[0]; k.kind == flowNot && k.kids[0].isList() && s.errexit {
			// bash 5.2 quirk: in "( ! { false; true; } )" under set -e the
			// group is left at its first failing command
			s.outside = true
			return 0
		}
		c := &refFlow{out: s.out, errexit: s.errexit}
		st := c.run(n.kids[0], ignore)
		s.out = c.out
		if c.outside {
			s.outside = true
			return 0
		}
		if c.exited {
			st = c.status
		}
		s.fail(st, ignore)
		return st
	}
	return 0
}

// refFlowProgram returns the program text for the tree, what bash prints and
// its exit status; ok is false where the reference does not model bash.
func refFlowProgram(n *flowNode, errexit bool) (src, out string, status int, ok bool) {
	if n.hasDoubleNot() {
		return "", "", 0, false // rejected by the parser under test
	}
	if errexit {
		src = "set -e\n"
	}
	src += n.text() + "\necho end $?\n"
	s := &refFlow{errexit: errexit}
	st := s.run(n, false)
	if s.outside {
		return src, "", 0, false
	}
	if s.exited {
		return src, string(s.out), s.status, true
	}
	return src, string(s.out) + "end " + string(rune('0'+st)) + "\n", 0, true
}

// Verif_c26_flow: every command tree of up to size nodes, with and without
// set -e, prints what bash prints and exits with bash's status.
func Verif_c26_flow() {
	n, _, ok := verifFlowGen(verifParam("size"), "", verifChoice)
	verifAssume(ok)
	errexit := verifChoice("errexit", 2) == 1
	src, want, wantSt, ok := refFlowProgram(n, errexit)
	verifAssume(ok)
	f, err := syntax.NewParser().Parse(strings.NewReader(src), "")
	verifAssert(err == nil, "a program bash accepts is rejected")
	if err != nil {
		return
	}
	var out, errb bytes.Buffer
	r := verifRunner(&out, &errb)
	rerr := r.Run(context.Background(), f)
	got := 0
	if rerr != nil {
		st, isExit := rerr.(ExitStatus)
		verifAssert(isExit, "Run fails with an error that is no exit status")
		got = int(st)
	}
	verifObserve("src", src)
	verifObserve("out", out.String())
	verifAssert(out.String() == want, "standard output differs from bash's")
	verifAssert(got == wantSt, "exit status differs from bash's")
	verifReach("end")
}
