package interp

import (
	"bytes"
	"context"
	"strings"

	"mvdan.cc/sh/v3/expand"
	"mvdan.cc/sh/v3/syntax"
)

// programs exercising the places where the interpreter rewrites or copies
// tree fragments; $X is an arbitrary string
var verifC29Programs = [...]string{
	`a=(x $X {1,2}); a+=($X); declare -a b=($X "$X"); declare -A m=([$X]=1); echo ${a[@]} ${m[@]}`,
	`alias e='echo al'; shopt -s expand_aliases` + "\n" + `e $X; alias c='e ' d=x` + "\n" + `c d $X`,
	`echo pre{a,$X,c}post {1..3} {a..c}$X; for i in {1..2}$X; do echo $i; done`,
	`cat <<EOF` + "\n" + `body $X $(echo in) ${X:-d}` + "\n" + `EOF` + "\n" + `cat <<'EOF'` + "\n" + `raw $X` + "\n" + `EOF` + "\n" + `cat <<-EOF` + "\n\t" + `tab $X` + "\n\t" + `EOF`,
	`f() { local v=$X; echo "$v" "$@"; }; f a "$X"; f; declare -f f`,
	`trap 'echo bye $X' EXIT; trap 'echo err' ERR; false; x=${X:=dflt}; y=${u:=$X}; echo $x $y`,
	`export E=$X; unset HOME; HOME=$X; PATH=$X:/bin; readonly R=$X; echo $E $HOME; env_only=1`,
	`case $X in a*) echo A;; *) echo other;; esac; [[ $X == a* ]] && echo m; (( n = 1 + 2 )); echo $n $((n++)) ${#X} ${X/a/b}`,
	`declare -n r=v; r=$X; declare -i i=1+1; local_fn() { local -a la=($X); la[3]=$X; echo ${la[@]}; }; local_fn; echo $v $i`,
	`set -- $X "$X" {a,b}; shift; echo "$@"; IFS=:; echo $*; read p q <<< "$X"; echo "$p|$q"`,
	`declare $X; local $X 2>/dev/null; export $X; readonly $X x$X; typeset -i $X; f() { local $1 "$@"; echo $a; }; f $X a=1; declare a$X=b; echo $a`,
	`kv="p=1 $X"; export $kv; declare -a arr; arr+=($X); arr[1]=$X; unset "arr[$X]" 2>/dev/null; echo ${arr[@]} $p`,
	`for w in $X a{1,$X}; do echo $w; done; select s in $X; do break; done <<< 1; case $X in $X) echo same;; esac; [[ -n $X && $X == $X ]]; echo $(( ${#X} + 1 ))`,
	`echo ${X:-$X} ${X:+a$X} ${X/$X/y} ${X#a} ${X%%b*} ${X:1:2} ${!X} ${X@Q} ${X^^}; echo "$(echo $X)" <<< $X; cat < /dev/null > /dev/null 2> /dev/null`,
}

type verifFrozenEnv struct {
	pairs  []string
	writes int
}

func (e *verifFrozenEnv) Get(name string) expand.Variable {
	for _, p := range e.pairs {
		if n, v, ok := strings.Cut(p, "="); ok && n == name {
			return expand.Variable{Set: true, Exported: true, Kind: expand.String, Str: v}
		}
	}
	return expand.Variable{}
}

func (e *verifFrozenEnv) Each(f func(string, expand.Variable) bool) {
	for _, p := range e.pairs {
		if n, v, ok := strings.Cut(p, "="); ok {
			if !f(n, expand.Variable{Set: true, Exported: true, Kind: expand.String, Str: v}) {
				return
			}
		}
	}
}

// Set makes the frozen environment a WriteEnviron on purpose: the runner
// must never call it.
func (e *verifFrozenEnv) Set(name string, vr expand.Variable) error {
	e.writes++
	return nil
}

// Verif_c29_untouched: Run leaves the syntax tree and the Env it was given untouched.
func Verif_c29_untouched() {
	k := verifParam("prog")
	if k < 0 {
		k = verifChoice("prog", len(verifC29Programs))
	}
	x := verifString("X", verifParam("nx"))
	for i := 0; i < len(x); i++ {
		verifAssume(verifInSet(x[i], "ab 1*{,}=:"))
	}
	src := verifC29Programs[k]
	f, err := syntax.NewParser(syntax.KeepComments(true)).Parse(strings.NewReader(src), "")
	verifAssume(err == nil)
	f0, _ := syntax.NewParser(syntax.KeepComments(true)).Parse(strings.NewReader(src), "")
	var before bytes.Buffer
	syntax.NewPrinter().Print(&before, f)
	env := &verifFrozenEnv{pairs: []string{"HOME=/h", "PATH=/bin", "X=" + x}}
	var out, errb bytes.Buffer
	r := verifRunner(&out, &errb, Env(env))
	ok := verifNoPanic(func() { r.Run(context.Background(), f) })
	verifAssert(ok, "Run panicked")
	verifAssert(verifTreeEq(f, f0, 0), "Run modified the syntax tree it was given")
	var after bytes.Buffer
	syntax.NewPrinter().Print(&after, f)
	verifAssert(before.String() == after.String(), "the printed form of the tree changed during Run")
	verifAssert(env.writes == 0, "Run wrote to the Environ supplied through Env")
	verifAssert(len(env.pairs) == 3 && env.pairs[0] == "HOME=/h" && env.pairs[1] == "PATH=/bin" && env.pairs[2] == "X="+x, "the supplied Environ changed")
	verifObserve("stdout", out.String())
	verifReach("end")
}

// ---------------------------------------------------------------- C30

var verifC30Histories = [...]string{
	`x=1; y=(a b); declare -A m=([k]=v); f() { :; }; alias a=b; set -e; shopt -s nullglob; cd /tmp; set -- p q; trap 'echo t' EXIT; export Z=1; readonly RO=1`,
	`exit 3`,
	`false; nosuchcmd; x=$X; OPTIND=5; IFS=:; getopts ab o -a; pushd /tmp >/dev/null; umask 077 2>/dev/null; set -o pipefail -u`,
	`f() { return 7; }; f; while :; do break; done; for i in 1 2; do continue; done; { sleep_unknown & } 2>/dev/null; wait`,
	`declare -n ref=x; ref=$X; local_outside=1; unset HOME; HOME=$X; readonly HOME2=$X; source /nonexistent 2>/dev/null; eval 'y=2'`,
}

var verifC30Programs = [...]string{
	`echo "$x|${y[@]}|${m[k]}|$Z|$RO|$-|$#|$1|$HOME|$PWD|$OPTIND|$IFS|$?"; type f a 2>&1; alias; shopt nullglob; set -o | grep -c on; trap`,
	`x=${x:-unset}; echo $x; f() { echo newf; }; f; cd / && pwd; echo $@ ${ref:-noref}; exit 4`,
}

func verifObservable(r *Runner, out, errb *bytes.Buffer, rerr error) string {
	var sb strings.Builder
	sb.WriteString(out.String())
	sb.WriteString("\x00")
	sb.WriteString(errb.String())
	sb.WriteString("\x00")
	if rerr != nil {
		sb.WriteString(rerr.Error())
	}
	return sb.String()
}

// Verif_c30_reset: Reset after any history behaves like a new Runner.
func Verif_c30_reset() {
	h := verifParam("hist")
	if h < 0 {
		h = verifChoice("hist", len(verifC30Histories))
	}
	p := verifParam("prog")
	if p < 0 {
		p = verifChoice("prog", len(verifC30Programs))
	}
	x := verifString("X", verifParam("nx"))
	for i := 0; i < len(x); i++ {
		verifAssume(verifInSet(x[i], "ab 1:"))
	}
	hist, err1 := syntax.NewParser().Parse(strings.NewReader(verifC30Histories[h]), "")
	prog, err2 := syntax.NewParser().Parse(strings.NewReader(verifC30Programs[p]), "")
	verifAssume(err1 == nil && err2 == nil)
	ctx := context.Background()
	mk := func(out, errb *bytes.Buffer) *Runner {
		return verifRunner(out, errb, Env(expand.ListEnviron("HOME=/h", "PATH=/bin", "X="+x)), StatHandler(DefaultStatHandler()), Params("o1", "o2"))
	}
	var o1, e1, o2, e2 bytes.Buffer
	used := mk(&o1, &e1)
	used.Run(ctx, hist)
	if verifBool("twoHistories") {
		h2, _ := syntax.NewParser().Parse(strings.NewReader(verifC30Histories[(h+1)%len(verifC30Histories)]), "")
		used.Reset()
		used.Run(ctx, h2)
	}
	used.Reset()
	o1.Reset()
	e1.Reset()
	err := used.Run(ctx, prog)
	fresh := mk(&o2, &e2)
	errF := fresh.Run(ctx, prog)
	verifAssert(o1.String() == o2.String(), "output after Reset differs from a new Runner")
	verifAssert(e1.String() == e2.String(), "stderr after Reset differs from a new Runner")
	verifAssert((err == nil) == (errF == nil) && (err == nil || err.Error() == errF.Error()), "exit status after Reset differs from a new Runner")
	verifAssert(verifTreeEq(used.Vars, fresh.Vars, 0), "final variables after Reset differ from a new Runner")
	verifAssert(used.Exited() == fresh.Exited(), "Exited differs")
	verifObserve("stdout", o2.String())
	verifReach("end")
}

// Verif_c30_havoc: every history in one step. All mutable state of a Runner
// is set to arbitrary values; after Reset it must equal a freshly reset one.
func Verif_c30_havoc() {
	var out, errb bytes.Buffer
	mk := func() *Runner {
		r := verifRunner(&out, &errb, Params("o1", "o2"))
		r.Reset()
		return r
	}
	fresh := mk()
	r := mk()
	// arbitrary values everywhere (what any earlier programs could have left)
	s := verifString("hs", 2)
	stmt := &syntax.Stmt{Cmd: &syntax.CallExpr{Args: []*syntax.Word{{Parts: []syntax.WordPart{&syntax.Lit{Value: s}}}}}}
	r.Dir = "/" + s
	r.Params = []string{s, s}
	r.Vars[s] = expand.Variable{Set: true, Kind: expand.String, Str: s}
	r.Funcs = map[string]*syntax.Stmt{s: stmt}
	r.alias = map[string]alias{s: {args: []*syntax.Word{{}}, blank: verifBool("hb0")}}
	r.filename = s
	r.breakEnclosing = verifInt("hi0")
	r.contnEnclosing = verifInt("hi1")
	r.inLoop = verifBool("hb1")
	r.inFunc = verifBool("hb2")
	r.inSource = verifBool("hb3")
	r.handlingTrap = verifBool("hb4")
	r.sourceSetParams = verifBool("hb5")
	r.noErrExit = verifBool("hb6")
	r.exit = exitStatus{code: verifByte("hc0"), exiting: verifBool("hb7"), fatalExit: verifBool("hb8")}
	r.lastExit = exitStatus{code: verifByte("hc1"), exiting: verifBool("hb9")}
	r.lastExpandExit = exitStatus{code: verifByte("hc2")}
	r.bgProcs = append(r.bgProcs, bgProc{done: make(chan struct{}), exit: new(exitStatus)})
	for i := range r.opts {
		r.opts[i] = r.opts[i] != verifBool("hopt")
	}
	r.dirStack = append(r.dirStack, s, s)
	r.optState = getopts{argidx: verifInt("hi2"), runeidx: verifInt("hi3")}
	r.keepRedirs = verifBool("hb10")
	r.callbackErr = s
	r.callbackExit = s
	r.setVarString(s, s)
	r.setVarString("IFS", s)
	r.setVarString("OPTIND", s)
	r.setVarString("PWD", s)
	r.stdin = nil
	r.stdout = nil
	r.stderr = nil
	r.Reset()
	verifAssert(verifTreeEq(r.Vars, fresh.Vars, 0), "Reset leaves Vars different from a new Runner")
	verifAssert(verifTreeEq(r.writeEnv, fresh.writeEnv, 0), "Reset leaves variables different from a new Runner")
	verifAssert(r.Dir == fresh.Dir && verifTreeEq(r.Params, fresh.Params, 4) && verifTreeEq(r.dirStack, fresh.dirStack, 4), "Reset: Dir/Params/dirStack differ")
	verifAssert(verifTreeEq(r.Funcs, fresh.Funcs, 4) && verifTreeEq(r.alias, fresh.alias, 4), "Reset: functions or aliases survive")
	verifAssert(verifTreeEq(r.opts, fresh.opts, 0), "Reset: shell options differ")
	verifAssert(r.filename == fresh.filename && r.breakEnclosing == fresh.breakEnclosing && r.contnEnclosing == fresh.contnEnclosing &&
		r.inLoop == fresh.inLoop && r.inFunc == fresh.inFunc && r.inSource == fresh.inSource && r.handlingTrap == fresh.handlingTrap &&
		r.sourceSetParams == fresh.sourceSetParams && r.noErrExit == fresh.noErrExit && r.keepRedirs == fresh.keepRedirs, "Reset: control-flow flags differ")
	verifAssert(verifTreeEq(r.exit, fresh.exit, 0) && verifTreeEq(r.lastExit, fresh.lastExit, 0) && verifTreeEq(r.lastExpandExit, fresh.lastExpandExit, 0), "Reset: exit status differs")
	verifAssert(len(r.bgProcs) == 0 && verifTreeEq(r.optState, fresh.optState, 0), "Reset: background jobs or getopts state survive")
	verifAssert(r.callbackErr == fresh.callbackErr && r.callbackExit == fresh.callbackExit, "Reset: traps survive")
	verifAssert(r.stdin == fresh.stdin && r.stdout == fresh.stdout && r.stderr == fresh.stderr, "Reset: standard streams differ")
	verifAssert(r.didReset == fresh.didReset && r.usedNew == fresh.usedNew && r.tempDir == fresh.tempDir, "Reset: bookkeeping differs")
	verifReach("end")
}

// programs whose statements depend on each other through $?, variables,
// functions, options and exit
var verifC30Steps = [...]string{
	"false\necho $?\ntrue\necho $?",
	"(exit 3)\nexit",
	"x=$X\necho \"$x\"\nf() { return 4; }\nf\necho $? $x",
	"set -e\necho a\nfalse\necho not-reached",
	"a=(1 $X)\na+=(3)\necho ${#a[@]} ${a[1]}\nunset a\necho ${a-unset}",
	"trap 'echo bye' EXIT\necho hi\n! true\necho $?\nexit 2\necho no",
	"cd /\necho $PWD $OLDPWD\nset -- p q\nshift\necho $1 $#",
	"if false; then :; fi\necho $?\n[[ $X == a ]]\necho $?\n(( 0 ))\necho $?",
	"alias e='echo al'\nshopt -s expand_aliases\ne $X\nwhile false; do :; done\necho $?",
}

// Verif_c30_stepwise: running a file's top-level statements one Run call at
// a time, stopping once Exited reports true, gives the same output, status
// and variables as running the file in one call.
func Verif_c30_stepwise() {
	k := verifParam("prog")
	if k < 0 {
		k = verifChoice("prog", len(verifC30Steps))
	}
	x := verifString("X", verifParam("nx"))
	for i := 0; i < len(x); i++ {
		verifAssume(verifInSet(x[i], "ab 1*"))
	}
	f, err := syntax.NewParser().Parse(strings.NewReader(verifC30Steps[k]), "")
	verifAssume(err == nil)
	ctx := context.Background()
	var o1, e1, o2, e2 bytes.Buffer
	whole := verifRunner(&o1, &e1, Env(expand.ListEnviron("HOME=/h", "PATH=/bin", "X="+x)))
	errW := whole.Run(ctx, f)
	step := verifRunner(&o2, &e2, Env(expand.ListEnviron("HOME=/h", "PATH=/bin", "X="+x)))
	var errS error
	for _, st := range f.Stmts {
		errS = step.Run(ctx, st)
		if step.Exited() {
			break
		}
	}
	verifObserve("out", o1.String())
	verifAssert(o1.String() == o2.String(), "stepwise run: output differs from the whole-file run")
	verifAssert((errW == nil) == (errS == nil), "stepwise run: final status differs (error or not)")
	if errW != nil && errS != nil {
		verifAssert(errW.Error() == errS.Error(), "stepwise run: final status differs")
	}
	verifAssert(verifTreeEq(whole.Vars, step.Vars, 0), "stepwise run: final variables differ")
	verifReach("end")
}
