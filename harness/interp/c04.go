package interp

import (
	"bytes"
	"context"
	"strings"

	"mvdan.cc/sh/v3/expand"
	"mvdan.cc/sh/v3/syntax"
)

// programs rich in what Simplify rewrites; $x $y hold plain integers, $s a string
var verifC04Programs = [...]string{
	`echo $(( ($x) + $y )) $(( (($x)) * ($y + 1) )) $(( $x > $y ? ($x) : $y ))`,
	`(( ($x) )); echo $?; (( $x + $y > 3 )); echo $?; (( z = ($x) ))` + "\n" + `echo $z`,
	`v=abcdefgh; echo ${v:$x:($y)} ${v:($x)} "${v:$y}"`,
	`[[ ! -z $s ]]; echo $?; [[ ! -n "$s" ]]; echo $?; [[ ! ! -z $s ]]; echo $?; [[ ! ( -n $s ) ]]; echo $?`,
	`[[ ! a == $s ]]; echo $?; [[ ! $s != a ]]; echo $?; [[ "$s" == a ]]; echo $?; [[ $s = a ]]; echo $?; [[ "$s" -eq "$x" ]] 2>/dev/null; echo $?`,
	`echo $( (echo in $s) ); ( (echo sub $s) ); ( ( (echo deep) ) ); echo $( (echo a); echo b )`,
	"echo \"\\$a\" \"a\\\\b\" \"\\\"q\\\"\" \"plain\" \"it's\" \"\\` \\$\" \"a\\\\$s\" \"$s\"",
	`echo $"a\\b" $"\$x" $"q\"q" $"plain"`,
	`a=(1 2 3); a[($x)]=9; echo ${a[($x)]} ${a[(($y))]} ${a[$x]}`,
	`[[ ab != "$s" ]]; echo $?; [[ ab == "$s" ]]; echo $?; [[ ab = "$s" ]]; echo $?; [[ ! ab == "$s" ]]; echo $?; [[ ! ab != "$s" ]]; echo $?; [[ ab =~ "$s" ]]; echo $?; [[ ! ab =~ "$s" ]]; echo $?`,
	`[[ "$s" != ab ]]; echo $?; [[ "$s" < "b" ]]; echo $?; [[ a > "$s" ]]; echo $?; [[ "$x" -lt "$y" ]]; echo $?; [[ "$x" -ne "$y" ]]; echo $?; [[ -n "$s" && "$s" != "a*" ]]; echo $?; [[ -z "$s" || ab == "$s"* ]]; echo $?`,
	`(! (false)); echo $?; x=$(! (true)); echo $? "$x"; ( (! ( (true)))); echo $?; (! (exit 3)); echo $?; ! ( (false)); echo $?; ( ! false ); echo $?; ( (exit 2)); echo $?`,
	`( (echo a) | cat ); ( (echo b) 2>&1 ); ( (echo c); echo d ); ( (echo e) && false ); echo $?; y=$( (echo f) ); echo $y; ( (echo g) & wait ); ( ( (exit 4) ) || echo h )`,
	`declare -A m=([x]=lit [1]=one); x=1; echo ${m[x]} ${m[$x]} $(( m[x] )) $(( ${m[x]} + 0 ))` + "\n" + `[[ "$s" =~ "$s" ]]; echo $?; [[ "$s" == $s* ]]; echo $?`,
}

// Verif_c04_behaviour: a simplified program prints, re-parses and behaves like the original.
func Verif_c04_behaviour() {
	k := verifParam("prog")
	if k < 0 {
		k = verifChoice("prog", len(verifC04Programs))
	}
	x := verifString("x", verifParam("nx"))
	for i := 0; i < len(x); i++ {
		verifAssume(verifInSet(x[i], "0123-"))
	}
	y := verifString("y", 1)
	verifAssume(verifInSet(y[0], "012"))
	s := verifString("s", verifParam("ns"))
	for i := 0; i < len(s); i++ {
		verifAssume(verifInSet(s[i], "ab*\\ "))
	}
	// x must be a plain integer (the property's precondition for bash)
	plain := len(x) > 0 && x[len(x)-1] != '-'
	for i := 1; i < len(x); i++ {
		if x[i] == '-' {
			plain = false
		}
	}
	verifAssume(plain)
	src := verifC04Programs[k]
	orig, err := syntax.NewParser().Parse(strings.NewReader(src), "")
	verifAssume(err == nil)
	simp, _ := syntax.NewParser().Parse(strings.NewReader(src), "")
	changed := syntax.Simplify(simp)
	verifAssert(changed == !verifTreeEq(orig, simp, 0), "Simplify's result does not say whether it changed the tree")
	var printed bytes.Buffer
	verifAssert(syntax.NewPrinter().Print(&printed, simp) == nil, "simplified tree does not print")
	re, rerr := syntax.NewParser().Parse(bytes.NewReader(printed.Bytes()), "")
	verifAssert(rerr == nil, "simplified tree does not re-parse")
	if rerr != nil {
		return
	}
	run := func(f *syntax.File) string {
		var out, errb bytes.Buffer
		r := verifRunner(&out, &errb, Env(expand.ListEnviron("HOME=/h", "PATH=/bin", "x="+x, "y="+y, "s="+s)))
		err := r.Run(context.Background(), f)
		st := "0"
		if err != nil {
			st = err.Error()
		}
		return out.String() + "\x00" + st
	}
	a, b, c := run(orig), run(simp), run(re)
	verifAssert(a == b, "simplified program behaves differently from the original")
	verifAssert(b == c, "printed simplified program behaves differently")
	verifObserve("out", a)
	if changed {
		verifReach("changed")
	}
	verifReach("end")
}
