package interp

import (
	"bytes"
	"context"
	"strings"
	"time"

	"mvdan.cc/sh/v3/syntax"
)

// verifCancelCtx becomes cancelled at an arbitrary poll: the cancellation
// instant is a symbolic variable, counted in polls of Err.
type verifCancelCtx struct {
	polls, after int
}

func (c *verifCancelCtx) Deadline() (time.Time, bool) { return time.Time{}, false }
func (c *verifCancelCtx) Done() <-chan struct{}       { return nil }
func (c *verifCancelCtx) Value(key any) any           { return nil }
func (c *verifCancelCtx) Err() error {
	c.polls++
	if c.polls > c.after {
		return context.Canceled
	}
	return nil
}

// non-terminating (or very long) programs without I/O
var verifLoops = [...]string{
	`while :; do :; done`,
	`until false; do x=$((x+1)); done`,
	`for ((;;)); do :; done`,
	`while true; do while true; do continue 2; done; done`,
	`f() { f; }; f`,
	`while :; do for i in 1 2 3; do [[ $i == 2 ]] && continue; done; done`,
	`while :; do if true; then case x in x) : ;; esac; fi; done`,
	`f() { while :; do return; done; }; while :; do f; done`,
	`x=0; while (( 1 )); do (( x++ )); done`,
	`trap ':' ERR; while :; do false; done`,
	`while :; do eval ':'; done`,
	`set -- a; while [ $# -gt 0 ]; do set -- a; done`,
}

// Verif_c31_cancel: once the context reports cancellation, Run returns an
// error after a bounded number of further polls, whatever the program is doing.
func Verif_c31_cancel() {
	k := verifParam("prog")
	if k < 0 {
		k = verifChoice("prog", len(verifLoops))
	}
	after := verifChoice("cancelAfter", verifParam("maxpolls"))
	f, err := syntax.NewParser().Parse(strings.NewReader(verifLoops[k]), "")
	verifAssume(err == nil)
	var out, errb bytes.Buffer
	r := verifRunner(&out, &errb)
	ctx := &verifCancelCtx{after: after}
	var rerr error
	ok := verifNoPanic(func() { rerr = r.Run(ctx, f) })
	verifAssert(ok, "Run panicked after cancellation")
	verifAssert(rerr != nil, "Run returned without an error although the context was cancelled")
	verifAssert(ctx.polls-after <= 64, "Run kept polling long after the context was cancelled")
	verifReach("end")
}
