package interp

import (
	"bytes"
	"context"
	"strings"
	"time"

	"mvdan.cc/sh/v3/syntax"
)

// verifCancelCtx becomes cancelled at an arbitrary instant: the clock is the
// engine's step counter (wall time natively) and the instant is a symbolic
// choice. Code that never polls the context therefore keeps running.
type verifCancelCtx struct {
	polls, pollsAfter int
	cancelAt          int
}

func (c *verifCancelCtx) Deadline() (time.Time, bool) { return time.Time{}, false }
func (c *verifCancelCtx) Done() <-chan struct{}       { return nil }
func (c *verifCancelCtx) Value(key any) any           { return nil }
func (c *verifCancelCtx) Err() error {
	c.polls++
	if verifSteps() >= c.cancelAt {
		c.pollsAfter++
		return context.Canceled
	}
	return nil
}

// non-terminating (or very long) programs without I/O
var verifLoops = [...]string{
	`while :; do :; done`,
	`until false; do x=$((x+1)); done`,
	`for ((;;)); do :; done`,
	`while true; do while true; do continue 2; done; done`,
	`f() { f; }; f`,
	`while :; do for i in 1 2 3; do [[ $i == 2 ]] && continue; done; done`,
	`while :; do if true; then case x in x) : ;; esac; fi; done`,
	`f() { while :; do return; done; }; while :; do f; done`,
	`x=0; while (( 1 )); do (( x++ )); done`,
	`trap ':' ERR; while :; do false; done`,
	`while :; do eval ':'; done`,
	`set -- a; while [ $# -gt 0 ]; do set -- a; done`,
	// loops inside trap bodies, functions called from traps, subshells and substitutions
	`trap 'while true; do true; done' ERR; false; true`,
	`trap 'while true; do true; done' EXIT; false`,
	`g() { while :; do :; done; }; trap g ERR; false`,
	`( while :; do :; done )`,
	`x=$(while :; do :; done)`,
	`while :; do :; done | while :; do :; done`,
	`{ while :; do :; done; } && :`,
	`! while :; do :; done`,
	`while :; do :; done &` + "\n" + `wait`,
	`eval 'while :; do :; done'`,
	`select i in a; do :; done <<< "1"`,
}

// Verif_c31_cancel: once the context reports cancellation, Run returns an
// error after a bounded number of further polls, whatever the program is doing.
func Verif_c31_cancel() {
	k := verifParam("prog")
	if k < 0 {
		k = verifChoice("prog", len(verifLoops))
	}
	f, err := syntax.NewParser().Parse(strings.NewReader(verifLoops[k]), "")
	verifAssume(err == nil)
	var out, errb bytes.Buffer
	r := verifRunner(&out, &errb)
	// cancellation at one of maxpolls instants, 700 steps apart
	ctx := &verifCancelCtx{cancelAt: verifSteps() + 700*verifChoice("cancelAfter", verifParam("maxpolls"))}
	verifBudgetFails("Run did not return within the step bound after the context was cancelled")
	var rerr error
	ok := verifNoPanic(func() { rerr = r.Run(ctx, f) })
	verifAssert(ok, "Run panicked after cancellation")
	verifAssert(rerr != nil, "Run returned without an error although the context was cancelled")
	verifAssert(ctx.pollsAfter <= 64, "Run kept polling long after the context was cancelled")
	verifReach("end")
}
