#!/bin/bash
# runs every registered check (tier $1, default quick) and reports exit codes
tier=${1:-quick}
cd /verif
for id in $(python3 -c "import json; print(' '.join(c['id'] for c in json.load(open('checks.json'))))"); do
  s=$(date +%s)
  timeout 7200 bin/symgo check $id --tier $tier > /tmp/check_$id.log 2>&1
  rc=$?
  echo "$id rc=$rc $(( $(date +%s) - s ))s $(tail -1 /tmp/check_$id.log | cut -c1-150)"
done
