#!/usr/bin/env python3
"""Generates MANIFEST.json from checks.json and the tables below."""
import json
checks = json.load(open('/verif/checks.json'))
ids = [c['id'] for c in checks]
NA = {
 "C03": "oracle is the observable behaviour of whole programs run by bash and by interp (process execution); neither can be a term in a solver query. Its decidable core (structure preservation) is decided under C01.",
 "C12": "oracle is `bash -n` / `dash -n`, an external process; a reference grammar faithful enough to replace it would be a second parser; feeding witnesses to the shells is test generation, not a solver verdict.",
 "C15": "typedjson is reflect.StructOf + encoding/json; reflection over run-time constructed types and the JSON codec are outside what the hand-written go/ssa symbolic executor encodes.",
 "C32": "data-race freedom under every goroutine interleaving needs a model of Go's scheduler and memory model; the engine is sequential.",
}
PENDING = "not yet encoded in this round: the engine does not yet execute the code this property depends on (see DESIGN.md section 8); no check is claimed"
design = {c: "7" for c in ids}
man = {
 "version": 1,
 "setup_cmd": "cd /verif/engine && PATH=/opt/veriftools/go1.26.8/bin:$PATH GOTOOLCHAIN=local GOFLAGS=-mod=mod GOPROXY=off GOSUMDB=off go build -o ../bin/symgo .",
 "hooks": {
  "guard": "verif",
  "enable": "no source hooks: harnesses are injected through the go build overlay (packages.Config.Overlay for the engine, go test -overlay for native replay); /repo carries only fix: commits",
  "baseline_off_cmd": "cd /repo && go test -vet=off -count=1 -timeout 25m ./...",
  "source_commits": [],
  "add_only": True
 },
 "engines": [{"name": "symgo", "path": "/verif/engine", "serves_properties": ids,
   "kind_free_text": "symbolic executor for go/ssa (real code of /repo rebuilt every run): bit-vector terms, path exploration by re-execution, z3 5.1 back end with exact finite-domain procedure for single-byte constraints, sampled cross-check on z3 4.8.12 and cvc5, native replay of every counterexample"}],
 "checks": [],
 "not_applicable": [],
 "notes": "Every check: /verif/bin/symgo check <ID> --tier quick|thorough; harness sources under /verif/harness, bounds in /verif/checks.json, known findings in /verif/known_findings.json."
}
for c in checks:
    man["checks"].append({
     "property_id": c["id"],
     "quick_cmd": "/verif/bin/symgo check %s --tier quick" % c["id"],
     "thorough_cmd": "/verif/bin/symgo check %s --tier thorough" % c["id"],
     "evidence_file": "/verif/evidence/%s.json" % c["id"],
     "replay_cmd_template": "/verif/bin/symgo replay {path}",
     "engine": "symgo",
     "level_claimed": {"category": "model_checking",
        "text": c.get("level_text", "bounded exhaustive symbolic execution of the real code: every feasible path of the harness within the stated bound is explored and each assertion is decided for all values of the symbolic inputs on that path (solver unsat / exact finite-domain procedure / constant folding); counterexamples are replayed natively before being reported"),
        "design_ref": "DESIGN.md section 7, " + c["id"]},
     "level_note": "bounds: " + c.get("bounds", "") + " | trusted: go/ssa construction, the engine's instruction semantics (validated per run by native replay of sampled paths), z3 (sampled cross-check with z3 4.8.12/cvc5), intrinsics/shims listed in DESIGN.md; assumptions: " + "; ".join(c.get("assumptions", [])),
     "technique": c.get("technique", "symbolic execution of go/ssa + SMT (z3) bounded model checking"),
    })
allp = ["C%02d" % i for i in range(1, 37)]
for p in allp:
    if p in ids:
        continue
    man["not_applicable"].append({"property_id": p, "reason": NA.get(p, PENDING)})
json.dump(man, open('/verif/MANIFEST.json', 'w'), indent=1)
print("checks:", ids)
print("n/a:", [x["property_id"] for x in man["not_applicable"]])
