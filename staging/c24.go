package expand

import "strconv"

// ---- reference for bash's printf builtin (one pass over the format) ----

// refPrintf returns the bytes written, how many arguments were consumed and
// whether bash reports an error (status 1). stop is set by \c inside %b.
func refPrintf(format string, args []string) (out []byte, used int, bad bool, fatal bool) {
	next := func() (string, bool) {
		if used < len(args) {
			used++
			return args[used-1], true
		}
		return "", false
	}
	for i := 0; i < len(format); i++ {
		c := format[i]
		switch c {
		case '\\':
			b, n := refEscape(format[i:], false)
			if n == 0 {
				return out, -1, true, true // \u, \U: outside the reference
			}
			out = append(out, b...)
			i += n - 1
		case '%':
			i++
			if i >= len(format) {
				return out, used, true, true // missing format character
			}
			if format[i] == '%' {
				out = append(out, '%')
				continue
			}
			var minus, plus, space, zero bool
		flags:
			for ; i < len(format); i++ {
				switch format[i] {
				case '-':
					minus = true
				case '+':
					plus = true
				case ' ':
					space = true
				case '0':
					zero = true
				case '#':
				default:
					break flags
				}
			}
			width := 0
			for i < len(format) && format[i] >= '0' && format[i] <= '9' {
				width = width*10 + int(format[i]-'0')
				i++
			}
			if i >= len(format) {
				return out, used, true, true
			}
			var body string
			numeric := false
			switch format[i] {
			case 's':
				body, _ = next()
			case 'b':
				a, _ := next()
				var eb []byte
				stop := false
				for k := 0; k < len(a); k++ {
					if a[k] == '\\' {
						if k+1 < len(a) && a[k+1] == 'c' {
							stop = true
							break
						}
						b, n := refEscape(a[k:], true)
						if n == 0 {
							return out, -1, true, true
						}
						eb = append(eb, b...)
						k += n - 1
						continue
					}
					eb = append(eb, a[k])
				}
				body = string(eb)
				if stop {
					out = append(out, refPad(body, width, minus, false, false)...)
					return out, used, bad, true
				}
			case 'c':
				a, _ := next()
				if a == "" {
					body = "\x00"
				} else {
					body = a[:1]
				}
			case 'd', 'i', 'u', 'o', 'x':
				a, _ := next()
				v, ok := refStrtoimax(a)
				if !ok {
					bad = true
				}
				numeric = true
				switch format[i] {
				case 'd', 'i':
					body = strconv.FormatInt(v, 10)
					if v >= 0 {
						if plus {
							body = "+" + body
						} else if space {
							body = " " + body
						}
					}
				case 'u':
					body = strconv.FormatUint(uint64(v), 10)
				case 'o':
					body = strconv.FormatUint(uint64(v), 8)
				case 'x':
					body = strconv.FormatUint(uint64(v), 16)
				}
			case 'e', 'f', 'g', 'a', 'n', 'q', 'E', 'F', 'G', 'A', 'X', 'Q', '(':
				return out, -1, true, true // outside the reference
			default:
				return out, used, true, true // invalid format character
			}
			out = append(out, refPad(body, width, minus, zero && numeric, numeric)...)
		default:
			out = append(out, c)
		}
	}
	return out, used, bad, false
}

func refPad(body string, width int, minus, zero, numeric bool) string {
	if len(body) >= width {
		return body
	}
	n := width - len(body)
	if minus {
		for k := 0; k < n; k++ {
			body += " "
		}
		return body
	}
	if zero {
		sign := ""
		if len(body) > 0 && (body[0] == '-' || body[0] == '+' || body[0] == ' ') {
			sign, body = body[:1], body[1:]
		}
		for k := 0; k < n; k++ {
			body = "0" + body
		}
		return sign + body
	}
	for k := 0; k < n; k++ {
		body = " " + body
	}
	return body
}

// refStrtoimax: C strtoimax with base 0; ok=false if nothing or trailing junk.
func refStrtoimax(s string) (int64, bool) {
	i := 0
	for i < len(s) && (s[i] == ' ' || s[i] == '\t' || s[i] == '\n') {
		i++
	}
	if i >= len(s) {
		return 0, s == "" // the empty string counts as 0 without an error
	}
	neg := false
	if s[i] == '+' || s[i] == '-' {
		neg = s[i] == '-'
		i++
	}
	base := uint64(10)
	if i+1 < len(s) && s[i] == '0' && (s[i+1] == 'x' || s[i+1] == 'X') && i+2 < len(s) && refHexVal(s[i+2]) < 16 {
		base = 16
		i += 2
	} else if i < len(s) && s[i] == '0' {
		base = 8
	}
	start := i
	var n uint64
	for i < len(s) {
		d := refHexVal(s[i])
		if uint64(d) >= base {
			break
		}
		n = n*base + uint64(d)
		i++
	}
	ok := i > start && i == len(s)
	v := int64(n)
	if neg {
		v = -v
	}
	return v, ok
}

func refHexVal(c byte) int {
	switch {
	case c >= '0' && c <= '9':
		return int(c - '0')
	case c >= 'a' && c <= 'f':
		return int(c-'a') + 10
	case c >= 'A' && c <= 'F':
		return int(c-'A') + 10
	}
	return 99
}

// refEscape decodes the escape sequence at s[0]=='\\'; inB selects %b rules
// (\0nnn). It returns the bytes and the number of input bytes used.
func refEscape(s string, inB bool) ([]byte, int) {
	if len(s) < 2 {
		return []byte{'\\'}, 1
	}
	switch c := s[1]; c {
	case 'u', 'U':
		return nil, 0
	case 'a':
		return []byte{7}, 2
	case 'b':
		return []byte{8}, 2
	case 'e', 'E':
		return []byte{27}, 2
	case 'f':
		return []byte{12}, 2
	case 'n':
		return []byte{10}, 2
	case 'r':
		return []byte{13}, 2
	case 't':
		return []byte{9}, 2
	case 'v':
		return []byte{11}, 2
	case '\\':
		return []byte{'\\'}, 2
	case '\'', '"', '?':
		if inB && c != '\\' {
			if c == '?' {
				return []byte{'\\', c}, 2
			}
			return []byte{c}, 2
		}
		return []byte{c}, 2
	case '0', '1', '2', '3', '4', '5', '6', '7':
		k, max := 1, 3
		if inB && c == '0' {
			k, max = 2, 3
		}
		v, n := 0, 0
		for k < len(s) && n < max && s[k] >= '0' && s[k] <= '7' {
			v = v*8 + int(s[k]-'0')
			k++
			n++
		}
		return []byte{byte(v)}, k
	case 'x':
		k, v, n := 2, 0, 0
		for k < len(s) && n < 2 && refHexVal(s[k]) < 16 {
			v = v*16 + refHexVal(s[k])
			k++
			n++
		}
		if n == 0 {
			return []byte{'\\', 'x'}, 2
		}
		return []byte{byte(v)}, k
	}
	return []byte{'\\'}, 1
}
