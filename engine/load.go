package main

import (
	"fmt"
	"go/types"
	"os"
	"path/filepath"
	"sort"
	"strings"
	"time"

	"golang.org/x/tools/go/packages"
	"golang.org/x/tools/go/ssa"
	"golang.org/x/tools/go/ssa/ssautil"
)

// repoDir is the tree under check. SYMGO_REPO points development runs (seeded
// changes in scratch worktrees) elsewhere; registered checks never set it.
var repoDir = func() string {
	if d := os.Getenv("SYMGO_REPO"); d != "" {
		return d
	}
	return "/repo"
}()

const modPath = "mvdan.cc/sh/v3"

// ProgramCtx is the loaded program shared by all workers.
type ProgramCtx struct {
	prog      *Program
	pkgs      []*packages.Package
	ssaPkgs   map[string]*ssa.Package
	harness   *ssa.Function
	rtErrType types.Type
	initOrder []*ssa.Package
	loadTime  time.Duration
	buildTime time.Duration
}

func goEnv() []string {
	env := os.Environ()
	out := env[:0:0]
	for _, e := range env {
		if strings.HasPrefix(e, "PATH=") || strings.HasPrefix(e, "GOFLAGS=") || strings.HasPrefix(e, "GOTOOLCHAIN=") ||
			strings.HasPrefix(e, "GOPROXY=") || strings.HasPrefix(e, "GOSUMDB=") || strings.HasPrefix(e, "GOWORK=") {
			continue
		}
		out = append(out, e)
	}
	out = append(out,
		"PATH="+os.Getenv("PATH"),
		"GOTOOLCHAIN=local", "GOFLAGS=-mod=mod", "GOPROXY=off", "GOSUMDB=off", "GOWORK=off", "CGO_ENABLED=0")
	return out
}

// overlayFor maps harness/shim source files into /repo package directories.
// harnessDir layout: <verif>/harness/<relpkg>/*.go -> /repo/<relpkg>/zz_verif_*.go
func overlayFor(verifDir string, native bool) (map[string][]byte, error) {
	ov := map[string][]byte{}
	root := filepath.Join(verifDir, "harness")
	err := filepath.Walk(root, func(p string, info os.FileInfo, err error) error {
		if err != nil {
			return err
		}
		if info.IsDir() || !strings.HasSuffix(p, ".go") {
			return nil
		}
		rel, _ := filepath.Rel(root, p)
		dir, base := filepath.Split(rel)
		data, err := os.ReadFile(p)
		if err != nil {
			return err
		}
		isNativeOnly := strings.HasSuffix(base, "_native.go")
		isEngineOnly := strings.HasSuffix(base, "_engine.go")
		if native && isEngineOnly || !native && isNativeOnly {
			return nil
		}
		name := "zz_verif_" + base
		if native && isNativeOnly {
			name = "zz_verif_" + strings.TrimSuffix(base, "_native.go") + "_test.go"
		}
		ov[filepath.Join(repoDir, dir, name)] = data
		return nil
	})
	return ov, err
}

// prelude source shared by all harness packages (engine flavour).
func enginePrelude(pkgName string) []byte {
	return []byte("package " + pkgName + "\n" + enginePreludeBody)
}

const enginePreludeBody = `
func verifByte(id string) byte            { return 0 }
func verifBool(id string) bool            { return false }
func verifInt(id string) int              { return 0 }
func verifInt64(id string) int64          { return 0 }
func verifUint64(id string) uint64        { return 0 }
func verifUint32(id string) uint32        { return 0 }
func verifInt32(id string) int32          { return 0 }
func verifBytes(id string, n int) []byte  { return make([]byte, n) }
func verifString(id string, n int) string { return string(make([]byte, n)) }
func verifAssume(c bool)                  {}
func verifAssert(c bool, msg string)      {}
func verifKnown(id string, c bool) bool   { return false }
func verifReach(tag string)               {}
func verifNoPanic(f func()) bool          { f(); return true }
func verifPanicMsg() string               { return "" }
func verifParam(name string) int          { return 0 }
func verifObserve(tag string, s string)   {}
func verifSteps() int                     { return 0 }
func verifBudgetFails(msg string)          {}
func verifIsSym(x any) bool               { return false }
func verifConcretize(x int) int           { return x }
func verifChoice(id string, n int) int    { return 0 }
func verifTreeEq(a, b any, mode int) bool { return false }
func verifInSet(b byte, set string) bool  { return false }
func verifCensus(root any) map[string]int { return nil }
func verifTypeOf(x any) string            { return "" }
`

func loadProgram(verifDir string, patterns []string, harnessPkg, harnessFn string) (*ProgramCtx, error) {
	t0 := time.Now()
	ov, err := overlayFor(verifDir, false)
	if err != nil {
		return nil, err
	}
	// add engine prelude to every package dir that has a harness
	dirs := map[string]bool{}
	for p := range ov {
		dirs[filepath.Dir(p)] = true
	}
	for d := range dirs {
		pkgName, err := packageNameOf(d, ov)
		if err != nil {
			return nil, err
		}
		ov[filepath.Join(d, "zz_verif_prelude.go")] = enginePrelude(pkgName)
	}
	cfg := &packages.Config{
		Mode:    packages.LoadAllSyntax,
		Dir:     repoDir,
		Env:     goEnv(),
		Overlay: ov,
	}
	pkgs, err := packages.Load(cfg, patterns...)
	if err != nil {
		return nil, err
	}
	var errs []string
	packages.Visit(pkgs, nil, func(p *packages.Package) {
		for _, e := range p.Errors {
			errs = append(errs, e.Error())
		}
	})
	if len(errs) > 0 {
		if len(errs) > 20 {
			errs = errs[:20]
		}
		return nil, fmt.Errorf("package load errors:\n%s", strings.Join(errs, "\n"))
	}
	loadT := time.Since(t0)
	t1 := time.Now()
	prog, _ := ssautil.AllPackages(pkgs, ssa.InstantiateGenerics|ssa.SanityCheckFunctions*0)
	prog.Build()
	pc := &ProgramCtx{
		prog:      &Program{prog: prog, funcs: map[*ssa.Function]*cfunc{}, globalIdx: map[*ssa.Global]int32{}, redirect: map[string]*ssa.Function{}},
		pkgs:      pkgs,
		ssaPkgs:   map[string]*ssa.Package{},
		loadTime:  loadT,
		buildTime: time.Since(t1),
	}
	for _, p := range prog.AllPackages() {
		pc.ssaPkgs[p.Pkg.Path()] = p
	}
	if rt := pc.ssaPkgs["runtime"]; rt != nil {
		if m := rt.Type("errorString"); m != nil {
			pc.rtErrType = m.Object().Type()
		}
	}
	if pc.rtErrType == nil {
		pc.rtErrType = types.Typ[types.String]
	}
	if harnessPkg != "" {
		hp := pc.ssaPkgs[harnessPkg]
		if hp == nil {
			return nil, fmt.Errorf("harness package %s not loaded", harnessPkg)
		}
		pc.harness = hp.Func(harnessFn)
		if pc.harness == nil {
			return nil, fmt.Errorf("harness function %s.%s not found", harnessPkg, harnessFn)
		}
	}
	pc.setupRedirects()
	pc.computeInitOrder()
	return pc, nil
}

func packageNameOf(dir string, ov map[string][]byte) (string, error) {
	ents, err := os.ReadDir(dir)
	if err == nil {
		for _, e := range ents {
			if strings.HasSuffix(e.Name(), ".go") && !strings.HasSuffix(e.Name(), "_test.go") {
				data, err := os.ReadFile(filepath.Join(dir, e.Name()))
				if err != nil {
					continue
				}
				if n := pkgClause(data); n != "" {
					return n, nil
				}
			}
		}
	}
	for p, data := range ov {
		if filepath.Dir(p) == dir {
			if n := pkgClause(data); n != "" {
				return n, nil
			}
		}
	}
	return "", fmt.Errorf("cannot determine package name of %s", dir)
}

func pkgClause(src []byte) string {
	for _, line := range strings.Split(string(src), "\n") {
		line = strings.TrimSpace(line)
		if strings.HasPrefix(line, "package ") {
			f := strings.Fields(line)
			if len(f) >= 2 {
				return f[1]
			}
		}
	}
	return ""
}

// packages whose initialisers are not executed.
var skipInit = map[string]bool{
	"runtime": true, "errors": true, "os": true, "syscall": true, "internal/poll": true, "reflect": true, "time": true,
	"internal/godebug": true, "internal/cpu": true, "internal/runtime/sys": true, "internal/syscall/unix": true,
	"os/exec": true, "os/signal": true, "os/user": true, "net": true, "crypto/rand": true, "math/rand": true, "math/rand/v2": true,
	"internal/reflectlite": true, "sync": true, "sync/atomic": true, "internal/bytealg": true, "internal/abi": true,
	"internal/oserror": false, "io/fs": false, "path/filepath": false, "internal/testlog": true, "internal/syscall/execenv": true,
	"context": false, "testing": true, "encoding/json": true, "flag": false, "log": true, "runtime/debug": true, "runtime/pprof": true,
	"internal/sync": true, "internal/race": true, "internal/runtime/atomic": true, "unique": true, "weak": true, "iter": false,
	"golang.org/x/sys/unix": true, "golang.org/x/term": true, "internal/filepathlite": false, "internal/goos": true,
	"internal/runtime/maps": true, "internal/runtime/exithook": true, "hash/maphash": true, "internal/stringslite": false,
	"crypto/internal/fips140": true, "internal/chacha8rand": true, "text/template": true, "os/signal/internal/pty": true,
}

func (pc *ProgramCtx) computeInitOrder() {
	seen := map[*types.Package]bool{}
	var order []*ssa.Package
	var visit func(p *types.Package)
	visit = func(p *types.Package) {
		if seen[p] {
			return
		}
		seen[p] = true
		imps := p.Imports()
		sort.Slice(imps, func(a, b int) bool { return imps[a].Path() < imps[b].Path() })
		for _, im := range imps {
			visit(im)
		}
		if sp := pc.prog.prog.Package(p); sp != nil {
			order = append(order, sp)
		}
	}
	var roots []*ssa.Package
	for _, p := range pc.prog.prog.AllPackages() {
		roots = append(roots, p)
	}
	sort.Slice(roots, func(a, b int) bool { return roots[a].Pkg.Path() < roots[b].Pkg.Path() })
	for _, p := range roots {
		visit(p.Pkg)
	}
	pc.initOrder = order
}
