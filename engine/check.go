package main

import (
	"encoding/json"
	"flag"
	"fmt"
	"math/rand"
	"os"
	"path/filepath"
	"sort"
	"strings"
	"time"
)

type RunDef struct {
	Pkg      string           `json:"pkg"`
	Fn       string           `json:"fn"`
	Params   map[string]int64 `json:"params"`
	Budget   int64            `json:"budget,omitempty"`
	MaxPaths int64            `json:"maxpaths,omitempty"`
	Deadline int              `json:"deadline_s,omitempty"`
	CCap     int              `json:"ccap,omitempty"`
	Desc     string           `json:"desc"`
	// Sweep: run once per value of each listed parameter (cartesian).
	Sweep map[string][]int64 `json:"sweep,omitempty"`
	Cross int                `json:"cross,omitempty"`
	// NoReplay: the harness runs against the engine's in-memory OS model, so a
	// native run would exercise the real file system instead; counterexamples
	// are reported from the engine's model without native confirmation.
	NoReplay bool `json:"noreplay,omitempty"`
}

type CheckDef struct {
	ID          string   `json:"id"`
	Quick       []RunDef `json:"quick"`
	Thorough    []RunDef `json:"thorough"`
	Bounds      string   `json:"bounds"`
	Assumptions []string `json:"assumptions"`
}

type KnownFinding struct {
	Property string `json:"property"`
	ID       string `json:"id"`
	Form     string `json:"form"`
	Harness  string `json:"harness"`
	What     string `json:"what"`
	Witness  string `json:"witness"`
}

type KnownFile struct {
	Findings []KnownFinding `json:"findings"`
	Fixed    []string       `json:"fixed"`
}

func loadKnown() *KnownFile {
	kf := &KnownFile{}
	data, err := os.ReadFile(filepath.Join(verifDir, "known_findings.json"))
	if err != nil {
		return kf
	}
	if err := json.Unmarshal(data, kf); err != nil {
		fmt.Fprintln(os.Stderr, "known_findings.json:", err)
	}
	return kf
}

func loadKnownIDs() map[string]bool {
	m := map[string]bool{}
	for _, f := range loadKnown().Findings {
		m[f.ID] = true
	}
	return m
}

func loadChecks() (map[string]*CheckDef, error) {
	data, err := os.ReadFile(filepath.Join(verifDir, "checks.json"))
	if err != nil {
		return nil, err
	}
	var list []*CheckDef
	if err := json.Unmarshal(data, &list); err != nil {
		return nil, err
	}
	m := map[string]*CheckDef{}
	for _, c := range list {
		m[c.ID] = c
	}
	return m, nil
}

func expandSweep(r RunDef) []RunDef {
	out := []RunDef{r}
	keys := sortedKeys(r.Sweep)
	for _, k := range keys {
		var next []RunDef
		for _, base := range out {
			for _, v := range r.Sweep[k] {
				c := base
				c.Params = map[string]int64{}
				for pk, pv := range base.Params {
					c.Params[pk] = pv
				}
				c.Params[k] = v
				next = append(next, c)
			}
		}
		out = next
	}
	for i := range out {
		out[i].Sweep = nil
	}
	return out
}

type harnessEvidence struct {
	Harness       string           `json:"harness"`
	Pkg           string           `json:"pkg"`
	Desc          string           `json:"desc"`
	Params        map[string]int64 `json:"params"`
	Paths         int64            `json:"paths_completed"`
	Done          int64            `json:"paths_passed"`
	AssumeFailed  int64            `json:"paths_ended_by_assume"`
	Truncated     int64            `json:"truncated"`
	Inconclusive  int64            `json:"inconclusive"`
	Unsupported   int64            `json:"unsupported"`
	EngineErrors  int64            `json:"engine_errors"`
	Forks         int64            `json:"solver_decided_forks"`
	Asserts       int64            `json:"assertions_checked"`
	AssertsSolver int64            `json:"assertions_discharged_by_solver_unsat"`
	Queries       int64            `json:"solver_queries"`
	SolverS       float64          `json:"solver_seconds"`
	WallS         float64          `json:"wall_seconds"`
	Steps         int64            `json:"ssa_instructions"`
	MaxSteps      int64            `json:"max_path_instructions"`
	CrossChecked  int64            `json:"cross_solver_checked"`
	CrossDisagree int64            `json:"cross_solver_disagreements"`
	Exhaustive    bool             `json:"exhaustive"`
	Violations    int              `json:"counterexamples"`
	Msgs          map[string]int64 `json:"notes,omitempty"`
	Known         map[string]int64 `json:"known_finding_paths,omitempty"`
	Reached       map[string]int64 `json:"reached"`
	Funcs         int              `json:"functions_encoded_count"`
}

func cmdCheck(args []string) int {
	fs := flag.NewFlagSet("check", flag.ExitOnError)
	tier := fs.String("tier", "quick", "quick or thorough")
	workers := fs.Int("j", 16, "workers")
	noReplay := fs.Bool("noreplay", false, "skip native replay/validation")
	if len(args) < 1 {
		fmt.Fprintln(os.Stderr, "usage: symgo check <ID> [--tier quick|thorough]")
		return 2
	}
	id := args[0]
	fs.Parse(args[1:])
	if t := os.Getenv("VERIF_TIER"); t == "quick" || t == "thorough" {
		*tier = t
	}
	seed := int64(1)
	if s := os.Getenv("VERIF_SEED"); s != "" {
		fmt.Sscan(s, &seed)
	}
	rng := rand.New(rand.NewSource(seed))
	checks, err := loadChecks()
	if err != nil {
		fmt.Fprintln(os.Stderr, "checks.json:", err)
		return 2
	}
	cd := checks[id]
	if cd == nil {
		fmt.Fprintln(os.Stderr, "unknown check", id)
		return 2
	}
	runs := cd.Quick
	if *tier == "thorough" && len(cd.Thorough) > 0 {
		runs = cd.Thorough
	}
	var all []RunDef
	for _, r := range runs {
		all = append(all, expandSweep(r)...)
	}
	known := loadKnown()
	knownIDs := map[string]bool{}
	for _, f := range known.Findings {
		knownIDs[f.ID] = true
	}
	t0 := time.Now()
	progs := map[string]*ProgramCtx{}
	var hev []harnessEvidence
	var samples []any
	funcSet := map[string]bool{}
	var confirmed []string
	unconfirmed := 0
	validated := 0
	validationMismatch := 0
	broken := ""
	knownHit := map[string]int64{}
	var totalStates, totalTrans int64
	exhaustive := true
	replayDir := filepath.Join(verifDir, "replays", id)
	for _, rd := range all {
		key := rd.Pkg + "\x00" + rd.Fn
		pc := progs[key]
		if pc == nil {
			pc, err = loadProgram(verifDir, loadPatterns(rd.Pkg), modPath+"/"+rd.Pkg, rd.Fn)
			if err != nil {
				fmt.Fprintln(os.Stderr, "load:", err)
				return 2
			}
			progs[key] = pc
		}
		cfg := &Config{Harness: rd.Fn, Pkg: rd.Pkg, Params: rd.Params, Workers: *workers, Budget: rd.Budget, MaxPaths: rd.MaxPaths,
			ConcretizeCap: rd.CCap, TimeoutMs: 10000, CrossEvery: rd.Cross, KeepSamples: 40, Known: knownIDs}
		if cfg.Budget == 0 {
			cfg.Budget = 20_000_000
		}
		if cfg.ConcretizeCap == 0 {
			cfg.ConcretizeCap = 300
		}
		if cfg.Params == nil {
			cfg.Params = map[string]int64{}
		}
		if rd.Deadline > 0 {
			cfg.Deadline = time.Now().Add(time.Duration(rd.Deadline) * time.Second)
		}
		res, err := runHarness(pc, cfg)
		if err != nil {
			fmt.Fprintln(os.Stderr, "run:", err)
			return 2
		}
		s := &res.Stats
		he := harnessEvidence{Harness: rd.Fn, Pkg: rd.Pkg, Desc: rd.Desc, Params: rd.Params, Paths: s.paths, Done: s.done, AssumeFailed: s.assumeFailed,
			Truncated: s.truncated, Inconclusive: s.inconclusive, Unsupported: s.unsupported, EngineErrors: s.errors, Forks: s.forks,
			Asserts: s.asserts, AssertsSolver: s.assertsProved, Queries: s.queries, SolverS: s.solverTime.Seconds(), WallS: res.Wall.Seconds(),
			Steps: s.steps, MaxSteps: s.maxSteps, CrossChecked: s.crossChecked, CrossDisagree: s.crossDisagree, Exhaustive: res.Exhaustive(),
			Violations: len(res.Cexs), Msgs: s.msgs, Known: s.knownHits, Reached: s.reached, Funcs: len(res.Funcs)}
		fmt.Printf("[%s %s] %s %v: paths=%d passed=%d assume=%d cex=%d truncated=%d inconclusive=%d unsupported=%d errors=%d forks=%d asserts=%d wall=%.1fs\n",
			id, *tier, rd.Fn, rd.Params, s.paths, s.done, s.assumeFailed, len(res.Cexs), s.truncated, s.inconclusive, s.unsupported, s.errors, s.forks, s.asserts, res.Wall.Seconds())
		for _, k := range sortedKeys(s.msgs) {
			fmt.Printf("    note[%d]: %s\n", s.msgs[k], k)
		}
		for _, f := range res.Funcs {
			funcSet[f] = true
		}
		for k, v := range s.knownHits {
			knownHit[k] += v
		}
		totalStates += s.paths
		totalTrans += s.forks
		if !res.Exhaustive() {
			exhaustive = false
		}
		if s.reached["end"] == 0 && len(res.Cexs) == 0 {
			broken = fmt.Sprintf("vacuity: harness %s %v never reached its end marker", rd.Fn, rd.Params)
		}
		// native confirmation of counterexamples
		if len(res.Cexs) > 0 && rd.NoReplay {
			for k, c := range res.Cexs {
				if k >= 25 {
					break
				}
				os.MkdirAll(replayDir, 0o755)
				path := filepath.Join(replayDir, fmt.Sprintf("%s-%d.json", rd.Fn, len(confirmed)))
				data, _ := json.MarshalIndent(map[string]any{"pkg": rd.Pkg, "case": NativeCase{Harness: c.Harness, Inputs: c.Inputs, Params: c.Params}, "engine_msg": c.Msg, "inputs_readable": fmtInputs(c.Inputs), "note": "counterexample in the engine's OS model; replay with: symgo run -pkg " + rd.Pkg + " -fn " + rd.Fn}, "", " ")
				os.WriteFile(path, data, 0o644)
				confirmed = append(confirmed, path)
				fmt.Printf("    counterexample in the OS model: %s inputs=%s\n", c.Msg, fmtInputs(c.Inputs))
			}
		} else if len(res.Cexs) > 0 {
			cexs := res.Cexs
			if len(cexs) > 25 {
				cexs = cexs[:25]
			}
			var cases []NativeCase
			for _, c := range cexs {
				cases = append(cases, NativeCase{Harness: c.Harness, Inputs: c.Inputs, Params: c.Params, Known: sortedKeys(knownIDs)})
			}
			nres, err := nativeReplay(rd.Pkg, cases)
			if err != nil {
				fmt.Fprintln(os.Stderr, "native replay:", err)
				unconfirmed += len(cases)
				exhaustive = false
			} else {
				for k, nr := range nres {
					if nr.Status == "assert" || nr.Status == "panic" {
						os.MkdirAll(replayDir, 0o755)
						path := filepath.Join(replayDir, fmt.Sprintf("%s-%d.json", rd.Fn, len(confirmed)))
						data, _ := json.MarshalIndent(map[string]any{"pkg": rd.Pkg, "case": cases[k], "engine_msg": cexs[k].Msg, "native": nr, "inputs_readable": fmtInputs(cases[k].Inputs)}, "", " ")
						os.WriteFile(path, data, 0o644)
						confirmed = append(confirmed, path)
						fmt.Printf("    confirmed natively: %s (%s) inputs=%s\n", nr.Msg, nr.Status, fmtInputs(cases[k].Inputs))
					} else {
						unconfirmed++
						exhaustive = false
						fmt.Printf("    UNCONFIRMED counterexample (engine/harness defect, not reported): engine=%q native=%s inputs=%s\n", cexs[k].Msg, nr.Status, fmtInputs(cases[k].Inputs))
					}
				}
			}
		}
		// translator validation on a sample of passing paths
		if !*noReplay && !rd.NoReplay && len(res.Samples) > 0 {
			smp := res.Samples
			rng.Shuffle(len(smp), func(a, b int) { smp[a], smp[b] = smp[b], smp[a] })
			if len(smp) > 12 {
				smp = smp[:12]
			}
			var cases []NativeCase
			for _, p := range smp {
				cases = append(cases, NativeCase{Harness: rd.Fn, Inputs: p.Inputs, Params: rd.Params, Known: sortedKeys(knownIDs)})
			}
			nres, err := nativeReplay(rd.Pkg, cases)
			if err != nil {
				fmt.Fprintln(os.Stderr, "native validation:", err)
			} else {
				for k, nr := range nres {
					ok := nr.Status == "pass" && obsEqual(nr.Observe, smp[k].Observe)
					if ok {
						validated++
					} else {
						validationMismatch++
						exhaustive = false
						fmt.Printf("    VALIDATION MISMATCH: engine path passed, native says %s %q (obs engine=%v native=%v) inputs=%s\n", nr.Status, nr.Msg, smp[k].Observe, nr.Observe, fmtInputs(cases[k].Inputs))
					}
				}
			}
		}
		for k, p := range res.Samples {
			if k >= 3 {
				break
			}
			samples = append(samples, map[string]any{"harness": rd.Fn, "params": rd.Params, "inputs": fmtInputs(p.Inputs), "steps": p.Steps, "observed": p.Observe})
		}
		hev = append(hev, he)
	}
	// known findings
	for _, f := range known.Findings {
		if f.Property != id {
			continue
		}
		note := "not reached within this tier's bound"
		if n := knownHit[f.ID]; n > 0 {
			note = fmt.Sprintf("reproduced on %d paths", n)
		}
		fmt.Printf("KNOWN-FINDING: property=%s %s: %s (witness %q; %s)\n", id, f.ID, f.What, f.Witness, note)
	}
	var funcs []string
	for f := range funcSet {
		funcs = append(funcs, f)
	}
	sort.Strings(funcs)
	subject := 0
	for _, f := range funcs {
		if strings.Contains(f, "mvdan.cc/sh") {
			subject++
		}
	}
	if len(samples) == 0 {
		samples = append(samples, "no passing path sampled")
	}
	if totalStates == 0 {
		totalStates = 1
	}
	if totalTrans == 0 {
		totalTrans = 1
	}
	ev := map[string]any{
		"property_id": id,
		"tier":        *tier,
		"seed":        seed,
		"level":       "model_checking",
		"coverage": map[string]any{
			"states":                        totalStates,
			"transitions":                   totalTrans,
			"traces_validated_against_impl": validated,
			"samples":                       samples,
			"exhaustive":                    exhaustive,
			"explanation":                   "bounded symbolic execution of the real go/ssa of /repo (rebuilt this run); states = feasible paths completed, transitions = solver-decided fork decisions; each verifAssert is discharged for all values of the path's symbolic inputs (constant-folded, refuted by model, or solver unsat)",
			"harnesses":                     hev,
			"functions_encoded":             funcs,
			"functions_encoded_subject":     subject,
			"bounds_statement":              cd.Bounds,
			"unconfirmed_counterexamples":   unconfirmed,
			"validation_mismatches":         validationMismatch,
			"known_findings_hit":            knownHit,
			"solver":                        "z3 5.1.0 (z3-new) primary; sampled queries re-run on z3 4.8.12 and cvc5 1.0.3",
		},
		"assumptions": cd.Assumptions,
		"wall_s":      time.Since(t0).Seconds(),
		"violations":  len(confirmed),
	}
	os.MkdirAll(filepath.Join(verifDir, "evidence"), 0o755)
	data, _ := json.MarshalIndent(ev, "", " ")
	if err := os.WriteFile(filepath.Join(verifDir, "evidence", id+".json"), data, 0o644); err != nil {
		fmt.Fprintln(os.Stderr, "evidence:", err)
		return 2
	}
	if len(confirmed) > 0 {
		for _, p := range confirmed {
			fmt.Printf("VIOLATION property=%s replay=%s\n", id, p)
		}
		return 1
	}
	if broken != "" {
		fmt.Fprintln(os.Stderr, "BROKEN CHECK:", broken)
		return 2
	}
	fmt.Printf("[%s %s] ok: %d paths, %d forks, exhaustive=%v, validated natively=%d, wall=%.1fs\n", id, *tier, totalStates, totalTrans, exhaustive, validated, time.Since(t0).Seconds())
	return 0
}

func obsEqual(a, b []Obs) bool {
	if len(a) != len(b) {
		return false
	}
	for k := range a {
		if a[k] != b[k] {
			return false
		}
	}
	return true
}

func cmdReplay(args []string) int {
	if len(args) < 1 {
		fmt.Fprintln(os.Stderr, "usage: symgo replay <file>")
		return 2
	}
	data, err := os.ReadFile(args[0])
	if err != nil {
		fmt.Fprintln(os.Stderr, err)
		return 2
	}
	var rf struct {
		Pkg  string     `json:"pkg"`
		Case NativeCase `json:"case"`
	}
	if err := json.Unmarshal(data, &rf); err != nil {
		fmt.Fprintln(os.Stderr, err)
		return 2
	}
	res, err := nativeReplay(rf.Pkg, []NativeCase{rf.Case})
	if err != nil {
		fmt.Fprintln(os.Stderr, err)
		return 2
	}
	fmt.Printf("native replay of %s: %s %s inputs=%s\n", rf.Case.Harness, res[0].Status, res[0].Msg, fmtInputs(rf.Case.Inputs))
	if res[0].Status == "assert" || res[0].Status == "panic" {
		return 1
	}
	return 0
}
