package main

// Per-function pre-compilation: SSA values get dense register slots and each
// instruction gets its operand list resolved once.

import (
	"fmt"
	"go/constant"
	"go/types"
	"sync"

	"golang.org/x/tools/go/ssa"
)

const (
	kSlot uint8 = iota
	kConst
	kGlobal
	kNil // absent optional operand
)

type opnd struct {
	kind uint8
	idx  int32
	v    value
}

type cinstr struct {
	in  ssa.Instruction
	dst int32
	ops []opnd
}

type cblock struct {
	b      *ssa.BasicBlock
	nphi   int
	instrs []cinstr
}

type cfunc struct {
	fn       *ssa.Function
	nslots   int
	blocks   []*cblock
	params   []int32
	freevars []int32
	ext      externalFn
	name     string
}

type Program struct {
	prog      *ssa.Program
	mu        sync.Mutex
	funcs     map[*ssa.Function]*cfunc
	globalIdx map[*ssa.Global]int32
	globals   []*ssa.Global
	redirect  map[string]*ssa.Function // function name -> replacement
}

func (p *Program) globalIndex(g *ssa.Global) int32 {
	p.mu.Lock()
	defer p.mu.Unlock()
	if i, ok := p.globalIdx[g]; ok {
		return i
	}
	i := int32(len(p.globals))
	p.globals = append(p.globals, g)
	p.globalIdx[g] = i
	return i
}

func (p *Program) compiled(fn *ssa.Function) *cfunc {
	p.mu.Lock()
	cf, ok := p.funcs[fn]
	p.mu.Unlock()
	if ok {
		return cf
	}
	cf = p.compile(fn)
	p.mu.Lock()
	if prev, ok := p.funcs[fn]; ok {
		cf = prev
	} else {
		p.funcs[fn] = cf
	}
	p.mu.Unlock()
	return cf
}

func (p *Program) compile(fn *ssa.Function) *cfunc {
	cf := &cfunc{fn: fn, name: fn.String()}
	if fn.Parent() == nil || fn.Synthetic != "" {
		if r, ok := p.redirect[cf.name]; ok && r != fn {
			rc := p.compiled(r)
			return rc
		}
	}
	if ext := lookupExternal(fn, cf.name); ext != nil {
		cf.ext = ext
		return cf
	}
	if fn.Blocks == nil {
		return cf
	}
	slots := map[ssa.Value]int32{}
	n := int32(0)
	alloc := func(v ssa.Value) int32 {
		s := n
		slots[v] = s
		n++
		return s
	}
	for _, pa := range fn.Params {
		cf.params = append(cf.params, alloc(pa))
	}
	for _, fv := range fn.FreeVars {
		cf.freevars = append(cf.freevars, alloc(fv))
	}
	for _, b := range fn.Blocks {
		for _, in := range b.Instrs {
			if v, ok := in.(ssa.Value); ok {
				alloc(v)
			}
		}
	}
	cf.nslots = int(n)
	resolve := func(v ssa.Value) opnd {
		switch v := v.(type) {
		case nil:
			return opnd{kind: kNil}
		case *ssa.Const:
			return opnd{kind: kConst, v: constValue(v)}
		case *ssa.Function:
			return opnd{kind: kConst, v: v}
		case *ssa.Builtin:
			return opnd{kind: kConst, v: v}
		case *ssa.Global:
			return opnd{kind: kGlobal, idx: p.globalIndex(v)}
		}
		s, ok := slots[v]
		if !ok {
			panic(fmt.Sprintf("compile %s: no slot for %T %s", fn, v, v.Name()))
		}
		return opnd{kind: kSlot, idx: s}
	}
	var rands []*ssa.Value
	for _, b := range fn.Blocks {
		cb := &cblock{b: b}
		for _, in := range b.Instrs {
			ci := cinstr{in: in, dst: -1}
			if v, ok := in.(ssa.Value); ok {
				ci.dst = slots[v]
			}
			if _, ok := in.(*ssa.Phi); ok {
				cb.nphi++
			}
			rands = in.Operands(rands[:0])
			for _, r := range rands {
				if r == nil {
					ci.ops = append(ci.ops, opnd{kind: kNil})
				} else {
					ci.ops = append(ci.ops, resolve(*r))
				}
			}
			cb.instrs = append(cb.instrs, ci)
		}
		cf.blocks = append(cf.blocks, cb)
	}
	return cf
}

// constValue returns the value of the constant with the dynamic type tag
// appropriate for c.Type().
func constValue(c *ssa.Const) value {
	if c.Value == nil {
		return zero(c.Type()) // typed zero
	}
	if t, ok := c.Type().Underlying().(*types.Basic); ok {
		switch t.Kind() {
		case types.Bool, types.UntypedBool:
			return constant.BoolVal(c.Value)
		case types.Int, types.UntypedInt:
			return int(c.Int64())
		case types.Int8:
			return int8(c.Int64())
		case types.Int16:
			return int16(c.Int64())
		case types.Int32, types.UntypedRune:
			return int32(c.Int64())
		case types.Int64:
			return c.Int64()
		case types.Uint:
			return uint(c.Uint64())
		case types.Uint8:
			return uint8(c.Uint64())
		case types.Uint16:
			return uint16(c.Uint64())
		case types.Uint32:
			return uint32(c.Uint64())
		case types.Uint64:
			return c.Uint64()
		case types.Uintptr:
			return uintptr(c.Uint64())
		case types.Float32:
			return float32(c.Float64())
		case types.Float64, types.UntypedFloat:
			return c.Float64()
		case types.Complex64:
			return complex64(c.Complex128())
		case types.Complex128, types.UntypedComplex:
			return c.Complex128()
		case types.String, types.UntypedString:
			if c.Value.Kind() == constant.String {
				return constant.StringVal(c.Value)
			}
			return string(rune(c.Int64()))
		}
	}
	panic(fmt.Sprintf("constValue: %s", c))
}
