package main

import (
	"go/types"
	"strings"
)

// verifCensus(root any) map[string]int: type-directed count of the syntax
// nodes reachable from root through exported fields, keyed by type name.
// Independent of syntax.Walk; it plays the role of a reflection oracle.
func init() {
	verifPrimsExtra["verifCensus"] = func(fr *frame, a []value) value {
		x := a[0].(iface)
		pc := fr.i.P
		sp := pc.ssaPkgs[modPath+"/syntax"]
		if sp == nil {
			panic(engineAbort{kind: "unsupported", msg: "verifCensus: syntax package not loaded"})
		}
		nodeIface := sp.Type("Node").Type().Underlying().(*types.Interface)
		counts := map[string]int{}
		seen := map[*value]bool{}
		var visit func(t types.Type, v value)
		tname := func(t types.Type) string {
			return types.TypeString(t, func(p *types.Package) string { return p.Name() })
		}
		visit = func(t types.Type, v value) {
			fr.i.step(1)
			switch u := t.Underlying().(type) {
			case *types.Pointer:
				p, ok := v.(*value)
				if !ok || p == nil {
					return
				}
				if _, isStruct := u.Elem().Underlying().(*types.Struct); !isStruct {
					return
				}
				if seen[p] {
					return
				}
				seen[p] = true
				if types.Implements(t, nodeIface) {
					counts[tname(t)]++
				}
				st := u.Elem().Underlying().(*types.Struct)
				sv := (*p).(structure)
				for k := 0; k < st.NumFields(); k++ {
					if st.Field(k).Exported() {
						visit(st.Field(k).Type(), sv[k])
					}
				}
			case *types.Struct:
				// a struct value, e.g. a Comment inside []Comment: Walk visits &c
				pt := types.NewPointer(t)
				if _, named := t.(*types.Named); named && types.Implements(pt, nodeIface) {
					counts[tname(pt)]++
				}
				sv := v.(structure)
				for k := 0; k < u.NumFields(); k++ {
					if u.Field(k).Exported() {
						visit(u.Field(k).Type(), sv[k])
					}
				}
			case *types.Interface:
				iv := v.(iface)
				if iv.t != nil {
					visit(iv.t, iv.v)
				}
			case *types.Slice:
				for _, e := range v.([]value) {
					visit(u.Elem(), e)
				}
			case *types.Array:
				for _, e := range v.(array) {
					visit(u.Elem(), e)
				}
			}
		}
		if x.t != nil {
			visit(x.t, x.v)
		}
		m := newMap(types.Typ[types.String])
		for _, k := range sortedKeys(counts) {
			fr.i.mapSet(m, k, counts[k])
		}
		return m
	}
	verifPrimsExtra["verifTypeOf"] = func(fr *frame, a []value) value {
		x := a[0].(iface)
		if x.t == nil {
			return "<nil>"
		}
		return types.TypeString(x.t, func(p *types.Package) string { return p.Name() })
	}
}

var _ = strings.Contains
