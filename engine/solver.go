package main

// A long-lived SMT solver process speaking SMT-LIB2 over a pipe.

import (
	"bufio"
	"fmt"
	"io"
	"os"
	"os/exec"
	"regexp"
	"strconv"
	"strings"
	"time"
)

type Solver struct {
	kind              string // "z3", "z3-new", "cvc5"
	cmd               *exec.Cmd
	in                io.WriteCloser
	out               *bufio.Reader
	Queries           int
	Time              time.Duration
	Errors            []string
	SendTime, AskTime time.Duration
	SentBytes         int64
	dead              bool
	logw              io.Writer
}

func solverArgs(kind string, timeoutMs int) (string, []string) {
	switch kind {
	case "z3":
		if os.Getenv("SYMGO_Z3") != "" {
			return os.Getenv("SYMGO_Z3"), []string{"-in", fmt.Sprintf("-t:%d", timeoutMs)}
		}
		return "/usr/bin/z3", []string{"-in", fmt.Sprintf("-t:%d", timeoutMs)}
	case "z3-new":
		return "z3-new", []string{"-in", fmt.Sprintf("-t:%d", timeoutMs)}
	case "cvc5":
		return "cvc5", []string{"--incremental", "--lang=smt2", "--produce-models", fmt.Sprintf("--tlimit-per=%d", timeoutMs)}
	}
	panic("unknown solver " + kind)
}

func NewSolver(kind string, timeoutMs int) (*Solver, error) {
	bin, args := solverArgs(kind, timeoutMs)
	cmd := exec.Command(bin, args...)
	in, err := cmd.StdinPipe()
	if err != nil {
		return nil, err
	}
	outp, err := cmd.StdoutPipe()
	if err != nil {
		return nil, err
	}
	cmd.Stderr = cmd.Stdout
	if err := cmd.Start(); err != nil {
		return nil, err
	}
	s := &Solver{kind: kind, cmd: cmd, in: in, out: bufio.NewReaderSize(outp, 1<<16)}
	if lf := os.Getenv("SYMGO_SOLVERLOG"); lf != "" {
		f, _ := os.OpenFile(fmt.Sprintf("%s.%d", lf, cmd.Process.Pid), os.O_CREATE|os.O_WRONLY|os.O_TRUNC, 0644)
		s.logw = f
	}
	if kind == "cvc5" {
		s.Send("(set-logic ALL)\n")
	}
	s.Send("(set-option :produce-models true)\n")
	return s, nil
}

func (s *Solver) Close() {
	if s == nil || s.dead {
		return
	}
	s.dead = true
	io.WriteString(s.in, "(exit)\n")
	s.in.Close()
	done := make(chan struct{})
	go func() { s.cmd.Wait(); close(done) }()
	select {
	case <-done:
	case <-time.After(2 * time.Second):
		s.cmd.Process.Kill()
	}
}

// Send writes commands that produce no output we wait for.
func (s *Solver) Send(text string) {
	t0 := time.Now()
	defer func() { s.SendTime += time.Since(t0); s.SentBytes += int64(len(text)) }()
	if s.logw != nil {
		io.WriteString(s.logw, text)
	}
	if _, err := io.WriteString(s.in, text); err != nil {
		s.dead = true
		s.Errors = append(s.Errors, "write: "+err.Error())
	}
}

const endMark = "<<<END>>>"

// Ask sends text followed by an echo marker and returns all output lines up
// to the marker.
func (s *Solver) Ask(text string) string {
	t0 := time.Now()
	defer func() { s.AskTime += time.Since(t0) }()
	s.Send(text + "(echo \"" + endMark + "\")\n")
	var sb strings.Builder
	for {
		line, err := s.out.ReadString('\n')
		if strings.Contains(line, endMark) {
			break
		}
		sb.WriteString(line)
		if err != nil {
			s.dead = true
			s.Errors = append(s.Errors, "read: "+err.Error())
			break
		}
	}
	out := sb.String()
	if strings.Contains(out, "(error") {
		s.Errors = append(s.Errors, strings.TrimSpace(out))
	}
	return out
}

type SatResult int

const (
	Unsat SatResult = iota
	Sat
	Unknown
)

func (r SatResult) String() string { return [...]string{"unsat", "sat", "unknown"}[r] }

// Check runs (check-sat) and classifies the answer; any error output is
// Unknown.
func (s *Solver) Check() SatResult {
	if s.dead {
		return Unknown
	}
	t0 := time.Now()
	out := s.Ask("(check-sat)\n")
	s.Time += time.Since(t0)
	s.Queries++
	if strings.Contains(out, "(error") {
		return Unknown
	}
	for _, l := range strings.Split(out, "\n") {
		switch strings.TrimSpace(l) {
		case "sat":
			return Sat
		case "unsat":
			return Unsat
		case "unknown", "timeout":
			return Unknown
		}
	}
	return Unknown
}

var valRe = regexp.MustCompile(`\(\s*v(\d+)\s+(#x[0-9a-fA-F]+|#b[01]+|true|false)\s*\)`)

// Model fetches the values of the first n declared variables named v0..v(n-1)
// that have been declared (declared[i]).
func (s *Solver) Model(declared []bool) ([]uint64, bool) {
	vals := make([]uint64, len(declared))
	var names []string
	for i, d := range declared {
		if d {
			names = append(names, "v"+strconv.Itoa(i))
		}
	}
	if len(names) == 0 {
		return vals, true
	}
	out := s.Ask("(get-value (" + strings.Join(names, " ") + "))\n")
	if strings.Contains(out, "(error") {
		return nil, false
	}
	ms := valRe.FindAllStringSubmatch(out, -1)
	if len(ms) != len(names) {
		s.Errors = append(s.Errors, "model parse: "+out)
		return nil, false
	}
	for _, m := range ms {
		idx, _ := strconv.Atoi(m[1])
		lit := m[2]
		var v uint64
		switch {
		case lit == "true":
			v = 1
		case lit == "false":
			v = 0
		case strings.HasPrefix(lit, "#x"):
			v, _ = strconv.ParseUint(lit[2:], 16, 64)
		case strings.HasPrefix(lit, "#b"):
			v, _ = strconv.ParseUint(lit[2:], 2, 64)
		}
		vals[idx] = v
	}
	return vals, true
}
