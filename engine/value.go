package main

// Value model (after x/tools/go/ssa/interp, extended with symbolic scalars).
//
// - bool, intN, uintN, uintptr, floatN, complexN   concrete scalars
// - *Term                                          symbolic bool / integer
// - string                                         concrete string
// - sstring                                        string with >=1 symbolic byte
// - []value                                        slices
// - *omap                                          maps (insertion ordered)
// - iface, structure, array, *value, tuple
// - *ssa.Function, *ssa.Builtin, *closure          functions
// - *symRef                                        pointer to table[symbolic index]
// - uptr                                           unsafe.Pointer wrapper

import (
	"fmt"
	"go/types"
	"strings"

	"golang.org/x/tools/go/ssa"
)

type value any

type tuple []value
type array []value
type structure []value

type iface struct {
	t types.Type
	v value
}

type closure struct {
	Fn  *ssa.Function
	Env []value
}

// sstring is a string some of whose bytes are symbolic (*Term of width 8);
// the others are uint8.
type sstring []value

// uptr is an unsafe.Pointer holding an interpreter pointer or slice data.
type uptr struct {
	p value
}

// symRef is the address of elems[idx] for a symbolic idx (already known to
// be in range on this path).
type symRef struct {
	elems []value
	idx   *Term
	signd bool
	kind  types.BasicKind
}

type chanv struct {
	buf    []value
	cap    int
	closed bool
}

// normStr returns a native string if all bytes are concrete.
func normStr(b []value) value {
	for _, x := range b {
		if _, ok := x.(*Term); ok {
			return sstring(b)
		}
	}
	bs := make([]byte, len(b))
	for i, x := range b {
		bs[i] = x.(uint8)
	}
	return string(bs)
}

func strBytes(s value) []value {
	switch s := s.(type) {
	case string:
		r := make([]value, len(s))
		for i := 0; i < len(s); i++ {
			r[i] = s[i]
		}
		return r
	case sstring:
		return []value(s)
	}
	panic(fmt.Sprintf("strBytes: %T", s))
}

func strLen(s value) int {
	switch s := s.(type) {
	case string:
		return len(s)
	case sstring:
		return len(s)
	}
	panic(fmt.Sprintf("strLen: %T", s))
}

func isSym(v value) bool {
	_, ok := v.(*Term)
	return ok
}

func deref(t types.Type) types.Type {
	if p, ok := t.Underlying().(*types.Pointer); ok {
		return p.Elem()
	}
	// type parameter core types are not expected (InstantiateGenerics)
	panic(fmt.Sprintf("deref: not a pointer: %s", t))
}

// ---------------------------------------------------------------------
// ordered map

type mentry struct {
	key, val value
	deleted  bool
}

type omap struct {
	keyT    types.Type
	entries []*mentry
	index   map[any]*mentry // concrete keys of basic/pointer type
	n       int
}

func hashableKey(k value) (any, bool) {
	switch k := k.(type) {
	case bool, int, int8, int16, int32, int64, uint, uint8, uint16, uint32, uint64, uintptr, float32, float64, string, *value, complex64, complex128:
		return k, true
	case iface:
		if k.t == nil {
			return ifaceKey{"", nil}, true
		}
		if inner, ok := hashableKey(k.v); ok {
			return ifaceKey{k.t.String(), inner}, true
		}
	case array:
		var sb strings.Builder
		for _, e := range k {
			h, ok := hashableKey(e)
			if !ok {
				return nil, false
			}
			fmt.Fprintf(&sb, "%T:%v|", h, h)
		}
		return arrKey(sb.String()), true
	case structure:
		var sb strings.Builder
		for _, e := range k {
			h, ok := hashableKey(e)
			if !ok {
				return nil, false
			}
			fmt.Fprintf(&sb, "%T:%v|", h, h)
		}
		return structKey(sb.String()), true
	}
	return nil, false
}

type ifaceKey struct {
	t string
	v any
}
type arrKey string
type structKey string

func newMap(kt types.Type) *omap {
	return &omap{keyT: kt, index: map[any]*mentry{}}
}

func (m *omap) length() int {
	if m == nil {
		return 0
	}
	return m.n
}

// ---------------------------------------------------------------------

// zero returns a new "zero" value of the specified type.
func zero(t types.Type) value {
	switch t := t.(type) {
	case *types.Basic:
		if t.Kind() == types.UntypedNil {
			panic("untyped nil has no zero value")
		}
		if t.Info()&types.IsUntyped != 0 {
			t = types.Default(t).(*types.Basic)
		}
		switch t.Kind() {
		case types.Bool:
			return false
		case types.Int:
			return int(0)
		case types.Int8:
			return int8(0)
		case types.Int16:
			return int16(0)
		case types.Int32:
			return int32(0)
		case types.Int64:
			return int64(0)
		case types.Uint:
			return uint(0)
		case types.Uint8:
			return uint8(0)
		case types.Uint16:
			return uint16(0)
		case types.Uint32:
			return uint32(0)
		case types.Uint64:
			return uint64(0)
		case types.Uintptr:
			return uintptr(0)
		case types.Float32:
			return float32(0)
		case types.Float64:
			return float64(0)
		case types.Complex64:
			return complex64(0)
		case types.Complex128:
			return complex128(0)
		case types.String:
			return ""
		case types.UnsafePointer:
			return uptr{}
		default:
			panic(fmt.Sprint("zero for unexpected type:", t))
		}
	case *types.Pointer:
		return (*value)(nil)
	case *types.Array:
		a := make(array, t.Len())
		for i := range a {
			a[i] = zero(t.Elem())
		}
		return a
	case *types.Named:
		return zero(t.Underlying())
	case *types.Alias:
		return zero(types.Unalias(t))
	case *types.Interface:
		return iface{}
	case *types.Slice:
		return []value(nil)
	case *types.Struct:
		s := make(structure, t.NumFields())
		for i := range s {
			s[i] = zero(t.Field(i).Type())
		}
		return s
	case *types.Tuple:
		if t.Len() == 1 {
			return zero(t.At(0).Type())
		}
		s := make(tuple, t.Len())
		for i := range s {
			s[i] = zero(t.At(i).Type())
		}
		return s
	case *types.Chan:
		return (*chanv)(nil)
	case *types.Map:
		return (*omap)(nil)
	case *types.Signature:
		return (*ssa.Function)(nil)
	case *types.TypeParam:
		panic("zero of type parameter " + t.String())
	}
	panic(fmt.Sprint("zero: unexpected ", t))
}

// copyVal makes an unaliased copy of aggregate values (structs, arrays).
func copyVal(v value) value {
	switch v := v.(type) {
	case structure:
		a := make(structure, len(v))
		for i := range v {
			a[i] = copyVal(v[i])
		}
		return a
	case array:
		a := make(array, len(v))
		for i := range v {
			a[i] = copyVal(v[i])
		}
		return a
	}
	return v
}

func toString(v value) string {
	var sb strings.Builder
	writeValue(&sb, v, 0)
	return sb.String()
}

func writeValue(buf *strings.Builder, v value, depth int) {
	if depth > 4 {
		buf.WriteString("…")
		return
	}
	switch v := v.(type) {
	case nil, bool, int, int8, int16, int32, int64, uint, uint8, uint16, uint32, uint64, uintptr, float32, float64, complex64, complex128:
		fmt.Fprintf(buf, "%v", v)
	case string:
		fmt.Fprintf(buf, "%q", v)
	case *Term:
		buf.WriteString(v.String())
	case sstring:
		buf.WriteString("sstr[")
		for i, e := range v {
			if i > 0 {
				buf.WriteString(" ")
			}
			writeValue(buf, e, depth+1)
		}
		buf.WriteString("]")
	case *omap:
		buf.WriteString("map[")
		if v != nil {
			for _, e := range v.entries {
				if !e.deleted {
					writeValue(buf, e.key, depth+1)
					buf.WriteString(":")
					writeValue(buf, e.val, depth+1)
					buf.WriteString(" ")
				}
			}
		}
		buf.WriteString("]")
	case *value:
		if v == nil {
			buf.WriteString("<nil>")
		} else {
			fmt.Fprintf(buf, "&")
			writeValue(buf, *v, depth+1)
		}
	case iface:
		if v.t == nil {
			buf.WriteString("nil-iface")
			return
		}
		fmt.Fprintf(buf, "(%s, ", v.t)
		writeValue(buf, v.v, depth+1)
		buf.WriteString(")")
	case structure:
		buf.WriteString("{")
		for i, e := range v {
			if i > 0 {
				buf.WriteString(" ")
			}
			writeValue(buf, e, depth+1)
		}
		buf.WriteString("}")
	case array:
		buf.WriteString("[")
		for i, e := range v {
			if i > 0 {
				buf.WriteString(" ")
			}
			writeValue(buf, e, depth+1)
		}
		buf.WriteString("]")
	case []value:
		buf.WriteString("[")
		for i, e := range v {
			if i > 0 {
				buf.WriteString(" ")
			}
			if i > 16 {
				buf.WriteString("…")
				break
			}
			writeValue(buf, e, depth+1)
		}
		buf.WriteString("]")
	case *ssa.Function:
		if v == nil {
			buf.WriteString("nil-func")
		} else {
			buf.WriteString(v.String())
		}
	case *closure:
		buf.WriteString("closure:" + v.Fn.String())
	case tuple:
		buf.WriteString("(")
		for i, e := range v {
			if i > 0 {
				buf.WriteString(", ")
			}
			writeValue(buf, e, depth+1)
		}
		buf.WriteString(")")
	default:
		fmt.Fprintf(buf, "<%T>", v)
	}
}
