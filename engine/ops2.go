package main

import (
	"fmt"
	"go/token"
	"go/types"
	"unsafe"

	"golang.org/x/tools/go/ssa"
)

// ---------------------------------------------------------------------
// slicing and indexing

func (i *Interp) slice(instr *ssa.Slice, x, lo, hi, max value) value {
	var Len, Cap int
	switch x := x.(type) {
	case string:
		Len = len(x)
		Cap = Len
	case sstring:
		Len = len(x)
		Cap = Len
	case []value:
		Len = len(x)
		Cap = cap(x)
	case *value: // *array
		if x == nil {
			panic(i.rtPanic("slice of nil array pointer"))
		}
		a := (*x).(array)
		Len = len(a)
		Cap = cap(a)
	default:
		panic(fmt.Sprintf("slice: unexpected X type: %T", x))
	}
	l := int64(0)
	if lo != nil {
		l = i.concInt(lo, instr.Low.Type())
	}
	h := int64(Len)
	if hi != nil {
		h = i.concInt(hi, instr.High.Type())
	}
	m := int64(Cap)
	if max != nil {
		m = i.concInt(max, instr.Max.Type())
	}
	if _, isStr := x.(string); isStr {
		if l < 0 || h < l || h > int64(Len) {
			panic(i.rtPanic(fmt.Sprintf("slice bounds out of range [%d:%d] with length %d", l, h, Len)))
		}
	} else if _, isS := x.(sstring); isS {
		if l < 0 || h < l || h > int64(Len) {
			panic(i.rtPanic(fmt.Sprintf("slice bounds out of range [%d:%d] with length %d", l, h, Len)))
		}
	} else if l < 0 || h < l || m < h || m > int64(Cap) {
		panic(i.rtPanic(fmt.Sprintf("slice bounds out of range [%d:%d:%d] with capacity %d", l, h, m, Cap)))
	}
	switch x := x.(type) {
	case string:
		return x[l:h]
	case sstring:
		return normStr([]value(x[l:h]))
	case []value:
		if x == nil {
			return x
		}
		return x[l:h:m]
	case *value:
		a := (*x).(array)
		return []value(a)[l:h:m]
	}
	panic("unreachable")
}

// boundsCheck forks on a symbolic index being within [0,n).
func (i *Interp) boundsCheck(idx *Term, signed bool, n int) {
	tt := i.ex.tt
	in := tt.tru
	if signed {
		in = tt.Sle(tt.Const(0, idx.w), idx)
		if idx.w == 64 || uint64(n) <= mask(idx.w-1) {
			in = tt.And(in, tt.Slt(idx, tt.Const(uint64(n), idx.w)))
		}
	} else if idx.w == 64 || uint64(n) <= mask(idx.w) {
		in = tt.Ult(idx, tt.Const(uint64(n), idx.w))
	}
	if !i.truth(untermKind(types.Bool, in)) {
		panic(i.rtPanic(fmt.Sprintf("index out of range [symbolic] with length %d", n)))
	}
}

const symTableMax = 1024

func scalarElems(xs []value) bool {
	for _, e := range xs {
		switch e.(type) {
		case bool, int, int8, int16, int32, int64, uint, uint8, uint16, uint32, uint64, uintptr, *Term:
		default:
			return false
		}
	}
	return true
}

// selectElem builds elems[idx] as a term (ite chain, merged by runs).
func (i *Interp) selectElem(elems []value, idx *Term, kind types.BasicKind) value {
	tt := i.ex.tt
	n := len(elems)
	res := i.term(elems[n-1])
	prev := res
	for k := n - 2; k >= 0; k-- {
		e := i.term(elems[k])
		if e == prev {
			continue
		}
		prev = e
		res = tt.Ite(tt.Ule(idx, tt.Const(uint64(k), idx.w)), e, res)
	}
	return untermKind(kind, res)
}

func elemKind(t types.Type) types.BasicKind {
	if b := basicOf(t); b != nil {
		return b.Kind()
	}
	return types.Invalid
}

func kindOfConc(elems []value) types.BasicKind {
	for _, e := range elems {
		switch e.(type) {
		case int:
			return types.Int
		case int8:
			return types.Int8
		case int16:
			return types.Int16
		case int32:
			return types.Int32
		case int64:
			return types.Int64
		case uint:
			return types.Uint
		case uint8:
			return types.Uint8
		case uint16:
			return types.Uint16
		case uint32:
			return types.Uint32
		case uint64:
			return types.Uint64
		case uintptr:
			return types.Uintptr
		case bool:
			return types.Bool
		}
	}
	// all symbolic: pick by width
	if t, ok := elems[0].(*Term); ok {
		switch t.w {
		case 0:
			return types.Bool
		case 8:
			return types.Uint8
		case 16:
			return types.Uint16
		case 32:
			return types.Uint32
		}
	}
	return types.Uint64
}

func (i *Interp) index(instr *ssa.Index, x, idx value) value {
	var n int
	switch x := x.(type) {
	case array:
		n = len(x)
	case string:
		n = len(x)
	case sstring:
		n = len(x)
	default:
		panic(fmt.Sprintf("unexpected x type in Index: %T", x))
	}
	if tm, ok := idx.(*Term); ok {
		_, signed, _ := intInfo(instr.Index.Type())
		i.boundsCheck(tm, signed, n)
		var elems []value
		switch x := x.(type) {
		case array:
			elems = x
		default:
			elems = strBytes(x)
		}
		if n <= symTableMax && scalarElems(elems) {
			i.step(int64(n) / 4)
			return i.selectElem(elems, tm, elemKind(instr.Type()))
		}
		k := i.concInt(idx, instr.Index.Type())
		return copyVal(elems[k])
	}
	k := asInt64(idx)
	if k < 0 || k >= int64(n) {
		panic(i.rtPanic(fmt.Sprintf("index out of range [%d] with length %d", k, n)))
	}
	switch x := x.(type) {
	case array:
		return copyVal(x[k])
	case string:
		return x[k]
	case sstring:
		return x[k]
	}
	panic("unreachable")
}

func (i *Interp) indexAddr(instr *ssa.IndexAddr, x, idx value) value {
	var elems []value
	switch x := x.(type) {
	case []value:
		elems = x
	case *value:
		if x == nil {
			panic(i.rtPanic("invalid memory address or nil pointer dereference"))
		}
		elems = (*x).(array)
	default:
		panic(fmt.Sprintf("unexpected x type in IndexAddr: %T", x))
	}
	if tm, ok := idx.(*Term); ok {
		_, signed, _ := intInfo(instr.Index.Type())
		i.boundsCheck(tm, signed, len(elems))
		if len(elems) <= symTableMax && scalarElems(elems) {
			return &symRef{elems: elems, idx: tm, signd: signed, kind: elemKind(deref(instr.Type()))}
		}
		k := i.concInt(idx, instr.Index.Type())
		return &elems[k]
	}
	k := asInt64(idx)
	if k < 0 || k >= int64(len(elems)) {
		panic(i.rtPanic(fmt.Sprintf("index out of range [%d] with length %d", k, len(elems))))
	}
	return &elems[k]
}

func (i *Interp) symLoad(r *symRef) value {
	i.step(int64(len(r.elems)) / 4)
	return i.selectElem(r.elems, r.idx, r.kind)
}

func (i *Interp) symStore(r *symRef, v value) {
	tt := i.ex.tt
	kind := r.kind
	nv := i.term(v)
	for k := range r.elems {
		old := i.term(r.elems[k])
		c := tt.Eq(r.idx, tt.Const(uint64(k), r.idx.w))
		i.write(&r.elems[k], untermKind(kind, tt.Ite(c, nv, old)))
	}
	i.step(int64(len(r.elems)))
}

// ---------------------------------------------------------------------
// maps

// keyMatch returns whether key k equals entry key (bool or *Term).
func (i *Interp) keyMatch(m *omap, k, ek value) value {
	return i.eqv(m.keyT, k, ek)
}

func symbolicKey(k value) bool {
	switch k := k.(type) {
	case *Term, sstring:
		return true
	case iface:
		return symbolicKey(k.v)
	case structure:
		for _, e := range k {
			if symbolicKey(e) {
				return true
			}
		}
	case array:
		for _, e := range k {
			if symbolicKey(e) {
				return true
			}
		}
	}
	return false
}

// mapFind returns the live entry for key k, forking on symbolic comparisons.
func (i *Interp) mapFind(m *omap, k value) *mentry {
	if m == nil {
		return nil
	}
	if !symbolicKey(k) {
		if hk, ok := hashableKey(k); ok {
			if e, ok := m.index[hk]; ok && !e.deleted {
				return e
			}
			// entries with symbolic keys are not in the index
			if len(m.index) == m.n {
				return nil
			}
		}
	}
	i.step(int64(len(m.entries)) / 2)
	for _, e := range m.entries {
		if e.deleted {
			continue
		}
		if i.truth(i.keyMatch(m, k, e.key)) {
			return e
		}
	}
	return nil
}

func (i *Interp) mapSet(m *omap, k, v value) {
	if e := i.mapFind(m, k); e != nil {
		if i.logging {
			i.mundo = append(i.mundo, mapUndo{m: m, e: e, kind: 0, old: e.val})
		}
		e.val = v
		return
	}
	e := &mentry{key: k, val: v}
	u := mapUndo{m: m, e: e, kind: 1, oldN: m.n, oldLenE: len(m.entries)}
	if !symbolicKey(k) {
		if hk, ok := hashableKey(k); ok {
			m.index[hk] = e
			u.hk, u.hashed = hk, true
		}
	}
	m.entries = append(m.entries, e)
	m.n++
	if i.logging {
		i.mundo = append(i.mundo, u)
	}
}

func (i *Interp) mapDelete(m *omap, k value) {
	e := i.mapFind(m, k)
	if e == nil {
		return
	}
	u := mapUndo{m: m, e: e, kind: 2, oldN: m.n}
	if !symbolicKey(e.key) {
		if hk, ok := hashableKey(e.key); ok {
			if m.index[hk] == e {
				delete(m.index, hk)
				u.hk, u.hashed = hk, true
			}
		}
	}
	e.deleted = true
	m.n--
	if i.logging {
		i.mundo = append(i.mundo, u)
	}
}

func (i *Interp) lookup(instr *ssa.Lookup, x, idx value) value {
	m, ok := x.(*omap)
	if !ok {
		panic(fmt.Sprintf("unexpected x type in Lookup: %T", x))
	}
	e := i.mapFind(m, idx)
	var v value
	if e != nil {
		v = copyVal(e.val)
	} else {
		v = zero(instr.X.Type().Underlying().(*types.Map).Elem())
	}
	if instr.CommaOk {
		return tuple{v, e != nil}
	}
	return v
}

// ---------------------------------------------------------------------
// iterators

type iter interface {
	next(i *Interp) tuple
}

type mapIter struct {
	m   *omap
	pos int
}

func (it *mapIter) next(i *Interp) tuple {
	if it.m != nil {
		for it.pos < len(it.m.entries) {
			e := it.m.entries[it.pos]
			it.pos++
			if !e.deleted {
				return tuple{true, e.key, copyVal(e.val)}
			}
		}
	}
	return tuple{false, nil, nil}
}

type stringIter struct {
	b   []value
	pos int
}

func (it *stringIter) next(i *Interp) tuple {
	if it.pos >= len(it.b) {
		return tuple{false, nil, nil}
	}
	r, n := i.decodeRune(it.b[it.pos:])
	p := it.pos
	it.pos += n
	return tuple{true, p, r}
}

func (i *Interp) rangeIter(x value) iter {
	switch x := x.(type) {
	case *omap:
		return &mapIter{m: x}
	case string, sstring:
		return &stringIter{b: strBytes(x)}
	}
	panic(fmt.Sprintf("cannot range over %T", x))
}

// ---------------------------------------------------------------------
// builtins

func (i *Interp) appendVals(dst []value, src []value, elemT types.Type) []value {
	if len(src) == 0 {
		return dst
	}
	i.step(int64(len(src)) / 4)
	if len(dst)+len(src) <= cap(dst) {
		full := dst[:len(dst)+len(src)]
		for k, e := range src {
			i.write(&full[len(dst)+k], copyVal(e))
		}
		return full
	}
	ncap := 2 * cap(dst)
	if ncap < len(dst)+len(src) {
		ncap = len(dst) + len(src)
	}
	if ncap < 4 {
		ncap = 4
	}
	n := make([]value, len(dst), ncap)
	copy(n, dst)
	for _, e := range src {
		n = append(n, copyVal(e))
	}
	// spare capacity holds zero values of the element type, as in Go
	if elemT != nil {
		full := n[:ncap]
		z := zero(elemT)
		switch z.(type) {
		case structure, array:
			for k := len(n); k < ncap; k++ {
				full[k] = zero(elemT)
			}
		default:
			for k := len(n); k < ncap; k++ {
				full[k] = z
			}
		}
	}
	return n
}

func (i *Interp) callBuiltin(caller *frame, fn *ssa.Builtin, args []value) value {
	switch fn.Name() {
	case "append":
		if len(args) == 1 {
			return args[0]
		}
		var et types.Type
		if st, ok := fn.Type().(*types.Signature).Params().At(0).Type().Underlying().(*types.Slice); ok {
			et = st.Elem()
		}
		if isStringy(args[1]) {
			return i.appendVals(args[0].([]value), strBytes(args[1]), et)
		}
		return i.appendVals(args[0].([]value), args[1].([]value), et)

	case "copy":
		dst := args[0].([]value)
		var src []value
		if isStringy(args[1]) {
			src = strBytes(args[1])
		} else {
			src = args[1].([]value)
		}
		n := len(dst)
		if len(src) < n {
			n = len(src)
		}
		i.step(int64(n) / 4)
		if n > 0 && &dst[0] != &src[0] {
			// handle overlap like memmove
			tmp := make([]value, n)
			for k := 0; k < n; k++ {
				tmp[k] = copyVal(src[k])
			}
			for k := 0; k < n; k++ {
				i.write(&dst[k], tmp[k])
			}
		}
		return n

	case "close":
		ch, _ := args[0].(*chanv)
		if ch == nil {
			panic(targetPanic{iface{i.P.rtErrType, "close of nil channel"}})
		}
		if ch.closed {
			panic(targetPanic{iface{i.P.rtErrType, "close of closed channel"}})
		}
		ch.closed = true
		return nil

	case "delete":
		m, _ := args[0].(*omap)
		if m != nil {
			i.mapDelete(m, args[1])
		}
		return nil

	case "clear":
		switch x := args[0].(type) {
		case *omap:
			if x != nil {
				for _, e := range x.entries {
					if !e.deleted {
						i.mapDelete(x, e.key)
					}
				}
			}
		case []value:
			et := fn.Type().(*types.Signature).Params().At(0).Type().Underlying().(*types.Slice).Elem()
			for k := range x {
				i.storeRec(&x[k], zero(et))
			}
		}
		return nil

	case "print", "println":
		return nil

	case "len":
		switch x := args[0].(type) {
		case string:
			return len(x)
		case sstring:
			return len(x)
		case array:
			return len(x)
		case *value:
			return len((*x).(array))
		case []value:
			return len(x)
		case *omap:
			return x.length()
		case *chanv:
			if x == nil {
				return 0
			}
			return len(x.buf)
		default:
			panic(fmt.Sprintf("len: illegal operand: %T", x))
		}

	case "cap":
		switch x := args[0].(type) {
		case array:
			return cap(x)
		case *value:
			return cap((*x).(array))
		case []value:
			return cap(x)
		case *chanv:
			if x == nil {
				return 0
			}
			return x.cap
		default:
			panic(fmt.Sprintf("cap: illegal operand: %T", x))
		}

	case "min", "max":
		t := fn.Type().(*types.Signature).Params().At(0).Type()
		x := args[0]
		for _, y := range args[1:] {
			var c value
			if fn.Name() == "min" {
				c = i.binop(token.LSS, t, y, x)
			} else {
				c = i.binop(token.GTR, t, y, x)
			}
			switch c := c.(type) {
			case bool:
				if c {
					x = y
				}
			case *Term:
				if isStringy(x) || isStringy(y) {
					if i.truth(c) {
						x = y
					}
				} else {
					b := basicOf(t)
					x = untermKind(b.Kind(), i.ex.tt.Ite(c, i.term(y), i.term(x)))
				}
			}
		}
		return x

	case "panic":
		panic(targetPanic{args[0]})

	case "recover":
		return doRecover(caller)

	case "ssa:wrapnilchk":
		recv := args[0]
		if p, ok := recv.(*value); ok && p == nil {
			panic(i.rtPanic(fmt.Sprintf("value method %v.%v called using nil pointer", args[1], args[2])))
		}
		return recv

	case "ssa:deferstack":
		return &caller.defers

	case "String": // unsafe.String(ptr *byte, len)
		n := int(i.concInt(args[1], types.Typ[types.Int]))
		bs := i.unsafeElems(args[0], n)
		c := make([]value, n)
		copy(c, bs)
		return normStr(c)

	case "StringData": // unsafe.StringData(s) *byte
		return &strData{s: args[0]}

	case "SliceData": // unsafe.SliceData(s) *T
		sl := args[0].([]value)
		if cap(sl) == 0 {
			return (*value)(nil)
		}
		return &sl[:1][0]

	case "Slice": // unsafe.Slice(ptr, len)
		n := int(i.concInt(args[1], types.Typ[types.Int]))
		if sd, ok := args[0].(*strData); ok {
			b := strBytes(sd.s)
			c := make([]value, n)
			copy(c, b[:n])
			return c
		}
		return i.unsafeElems(args[0], n)

	case "real", "imag", "complex":
		panic(engineAbort{kind: "unsupported", msg: "complex numbers"})
	}
	panic("unknown built-in: " + fn.Name())
}

// strData is the result of unsafe.StringData.
type strData struct{ s value }

// unsafeElems returns the n elements starting at pointer p (an element of a
// slice/array backing store, or string data).
func (i *Interp) unsafeElems(p value, n int) []value {
	switch p := p.(type) {
	case *strData:
		return strBytes(p.s)[:n]
	case *value:
		if p == nil {
			if n == 0 {
				return nil
			}
			panic(i.rtPanic("unsafe: nil pointer with non-zero length"))
		}
		if n == 0 {
			return []value{}
		}
		return unsafe.Slice(p, n)
	case uptr:
		return i.unsafeElems(p.p, n)
	}
	panic(engineAbort{kind: "unsupported", msg: fmt.Sprintf("unsafe element pointer %T", p)})
}

// selectStmt picks the first ready case in source order (one legal choice).
func (i *Interp) selectStmt(fr *frame, instr *ssa.Select, ci *cinstr) value {
	chosen := -1
	var recv value
	recvOk := false
	for k, st := range instr.States {
		ch, _ := fr.get(&ci.ops[2*k]).(*chanv)
		if ch == nil {
			continue
		}
		if st.Dir == types.RecvOnly {
			if len(ch.buf) > 0 {
				chosen, recv, recvOk = k, ch.buf[0], true
				ch.buf = ch.buf[1:]
				break
			}
			if ch.closed {
				chosen, recv, recvOk = k, zero(st.Chan.Type().Underlying().(*types.Chan).Elem()), false
				break
			}
		} else if !ch.closed && len(ch.buf) < ch.cap {
			ch.buf = append(ch.buf, fr.get(&ci.ops[2*k+1]))
			chosen = k
			break
		}
	}
	if chosen < 0 && instr.Blocking {
		panic(engineAbort{kind: "unsupported", msg: "select would block (sequential schedule)"})
	}
	r := tuple{chosen, recvOk}
	for k, st := range instr.States {
		if st.Dir == types.RecvOnly {
			if k == chosen {
				r = append(r, recv)
			} else {
				r = append(r, zero(st.Chan.Type().Underlying().(*types.Chan).Elem()))
			}
		}
	}
	return r
}
