package main

import (
	"fmt"
	"go/types"
	"os"
	"sort"
	"strings"
	"sync"
	"time"

	"golang.org/x/tools/go/ssa"
)

func (pc *ProgramCtx) setupRedirects() {
	// fmt and friends are redirected to the shim package when it is loaded.
	shim := pc.ssaPkgs[modPath+"/internal/zzverifshim"]
	if shim == nil {
		return
	}
	for name, m := range shim.Members {
		f, ok := m.(*ssa.Function)
		if !ok {
			continue
		}
		// convention: Fmt_Sprintf replaces fmt.Sprintf ; Errors_Is replaces errors.Is
		k := strings.Index(name, "_")
		if k <= 0 {
			continue
		}
		if name[:k] == "OsFile" {
			pc.prog.redirect["(*os.File)."+name[k+1:]] = f
			continue
		}
		pkg := strings.ToLower(name[:k])
		pkg = strings.ReplaceAll(pkg, "0", "/")
		pc.prog.redirect[pkg+"."+name[k+1:]] = f
	}
}

// newWorker builds an interpreter and runs package initialisers.
func newWorker(id int, pc *ProgramCtx, cfg *Config) (*Worker, error) {
	w := &Worker{id: id, cfg: cfg, pathLog: &strings.Builder{}}
	w.stats.knownHits = map[string]int64{}
	w.stats.reached = map[string]int64{}
	w.stats.msgs = map[string]int64{}
	ip := &Interp{P: pc, budget: 1 << 40, stack: make([]value, 1<<20)}
	w.ip = ip
	ex := &Explorer{w: w, concrete: true}
	ex.reset(workItem{})
	w.ex = ex
	ip.ex = ex
	if err := ip.runInits(); err != nil {
		return nil, err
	}
	ex.concrete = false
	ip.logging = true
	s, err := NewSolver("z3-new", cfg.TimeoutMs)
	if err != nil {
		return nil, err
	}
	w.solver = s
	if cfg.CrossEvery > 0 {
		w.crossEvery = cfg.CrossEvery
		for _, k := range []string{"z3", "cvc5"} {
			cs, err := NewSolver(k, cfg.TimeoutMs)
			if err == nil {
				w.cross = append(w.cross, cs)
			}
		}
	}
	return w, nil
}

func (i *Interp) runInits() (err error) {
	// packages reachable from the harness package
	var root *ssa.Package
	if i.P.harness != nil {
		root = i.P.harness.Pkg
	}
	need := map[*types.Package]bool{}
	var visit func(p *types.Package)
	visit = func(p *types.Package) {
		if need[p] {
			return
		}
		need[p] = true
		for _, im := range p.Imports() {
			visit(im)
		}
	}
	if root != nil {
		visit(root.Pkg)
	}
	if shim := i.P.ssaPkgs[modPath+"/internal/zzverifshim"]; shim != nil {
		visit(shim.Pkg)
	}
	// os.Args for packages (flag) whose initialisers read it
	if osp := i.P.ssaPkgs["os"]; osp != nil {
		if g, ok := osp.Members["Args"].(*ssa.Global); ok {
			cell := i.globalAddr(i.P.prog.globalIndex(g)).(*value)
			*cell = []value{"prog"}
		}
	}
	for _, p := range i.P.initOrder {
		if !need[p.Pkg] || skipInit[p.Pkg.Path()] {
			continue
		}
		initFn := p.Func("init")
		if initFn == nil {
			continue
		}
		func() {
			defer func() {
				if r := recover(); r != nil {
					msg := ""
					switch r := r.(type) {
					case engineAbort:
						msg = r.kind + ": " + r.msg
					case engineError:
						msg = r.msg + " @ " + r.where
					case targetPanic:
						msg = "panic: " + i.panicString(r)
					default:
						msg = fmt.Sprint(r)
					}
					fmt.Fprintf(os.Stderr, "symgo: init of %s failed: %s\n", p.Pkg.Path(), msg)
					i.depth = 0
				}
			}()
			i.callSSA(nil, initFn, nil, nil)
		}()
	}
	return nil
}

// RunResult aggregates a harness run.
type RunResult struct {
	Cfg       *Config
	Stats     Stats
	Cexs      []*Counterexample
	NonDone   []PathResult
	Samples   []PathResult
	Wall      time.Duration
	Funcs     []string
	LoadTime  time.Duration
	BuildTime time.Duration
	InitTime  time.Duration
}

func (r *RunResult) Exhaustive() bool {
	s := &r.Stats
	return s.truncated == 0 && s.inconclusive == 0 && s.unsupported == 0 && s.errors == 0 && s.crossDisagree == 0
}

func runHarness(pc *ProgramCtx, cfg *Config) (*RunResult, error) {
	t0 := time.Now()
	d := &Driver{cfg: cfg, pc: pc}
	d.cond = sync.NewCond(&d.mu)
	d.queue = []workItem{{}}
	workers := make([]*Worker, cfg.Workers)
	var wg sync.WaitGroup
	var initErr error
	var emu sync.Mutex
	tInit := time.Now()
	for k := range workers {
		wg.Add(1)
		go func(k int) {
			defer wg.Done()
			w, err := newWorker(k, pc, cfg)
			if err != nil {
				emu.Lock()
				initErr = err
				emu.Unlock()
				return
			}
			w.ip.funcsRun = map[*ssa.Function]struct{}{}
			workers[k] = w
		}(k)
	}
	wg.Wait()
	if initErr != nil {
		return nil, initErr
	}
	initTime := time.Since(tInit)
	for _, w := range workers {
		wg.Add(1)
		go func(w *Worker) {
			defer wg.Done()
			defer func() { w.solver.Close() }()
			defer func() {
				if os.Getenv("SYMGO_PROGRESS") != "" {
					fmt.Fprintf(os.Stderr, "worker %d: send=%.1fs ask=%.1fs check=%.1fs bytes=%d paths=%d\n", w.id, w.solver.SendTime.Seconds(), w.solver.AskTime.Seconds(), w.solver.Time.Seconds(), w.solver.SentBytes, w.stats.paths)
				}
			}()
			defer func() {
				for _, c := range w.cross {
					c.Close()
				}
			}()
			for {
				it, ok := d.pop()
				if !ok {
					return
				}
				w.pathLog.Reset()
				if w.stats.paths > 0 && w.stats.paths%1500 == 0 {
					// fresh solver process: bounds any state leak across push/pop
					old := w.solver
					if ns, err := NewSolver("z3-new", cfg.TimeoutMs); err == nil {
						ns.Queries, ns.Time = old.Queries, old.Time
						ns.SendTime, ns.AskTime, ns.SentBytes = old.SendTime, old.AskTime, old.SentBytes
						w.solver = ns
						old.Close()
					}
				}
				items, r := w.runPath(d, it)
				d.finish(items, r)
			}
		}(w)
	}
	stopProg := make(chan struct{})
	if os.Getenv("SYMGO_PROGRESS") != "" {
		go func() {
			tk := time.NewTicker(5 * time.Second)
			defer tk.Stop()
			for {
				select {
				case <-stopProg:
					return
				case <-tk.C:
					d.mu.Lock()
					fmt.Fprintf(os.Stderr, "progress: started=%d queue=%d active=%d cex=%d\n", d.started, len(d.queue), d.active, len(d.cexs))
					d.mu.Unlock()
				}
			}
		}()
	}
	wg.Wait()
	close(stopProg)
	res := &RunResult{Cfg: cfg, Wall: time.Since(t0), LoadTime: pc.loadTime, BuildTime: pc.buildTime, InitTime: initTime}
	res.Stats = d.total
	fset := map[string]bool{}
	for _, w := range workers {
		res.Stats.add(&w.stats)
		for f := range w.ip.funcsRun {
			fset[f.String()] = true
		}
	}
	for f := range fset {
		res.Funcs = append(res.Funcs, f)
	}
	sort.Strings(res.Funcs)
	res.Cexs = d.cexs
	res.NonDone = d.results
	res.Samples = d.samples
	return res, nil
}
