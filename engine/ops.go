package main

import (
	"fmt"
	"go/token"
	"go/types"
	"math"
	"unicode/utf8"

	"golang.org/x/tools/go/ssa"
)

// ---------------------------------------------------------------------
// helpers on static types

func basicOf(t types.Type) *types.Basic {
	b, _ := t.Underlying().(*types.Basic)
	return b
}

// intInfo returns width and signedness of an integer (or bool: w=0) type.
func intInfo(t types.Type) (w uint8, signed bool, ok bool) {
	b := basicOf(t)
	if b == nil {
		return 0, false, false
	}
	switch b.Kind() {
	case types.Bool, types.UntypedBool:
		return 0, false, true
	case types.Int, types.Int64, types.UntypedInt:
		return 64, true, true
	case types.Int8:
		return 8, true, true
	case types.Int16:
		return 16, true, true
	case types.Int32, types.UntypedRune:
		return 32, true, true
	case types.Uint, types.Uint64, types.Uintptr:
		return 64, false, true
	case types.Uint8:
		return 8, false, true
	case types.Uint16:
		return 16, false, true
	case types.Uint32:
		return 32, false, true
	}
	return 0, false, false
}

// asInt64 converts a concrete integer value to int64.
func asInt64(x value) int64 {
	switch x := x.(type) {
	case int:
		return int64(x)
	case int8:
		return int64(x)
	case int16:
		return int64(x)
	case int32:
		return int64(x)
	case int64:
		return x
	case uint:
		return int64(x)
	case uint8:
		return int64(x)
	case uint16:
		return int64(x)
	case uint32:
		return int64(x)
	case uint64:
		return int64(x)
	case uintptr:
		return int64(x)
	}
	panic(fmt.Sprintf("cannot convert %T to int64", x))
}

// bitsOf returns the raw bits (zero-extended within width) of a concrete int/bool.
func bitsOf(x value) (uint64, uint8) {
	switch x := x.(type) {
	case bool:
		if x {
			return 1, 0
		}
		return 0, 0
	case int:
		return uint64(x), 64
	case int8:
		return uint64(uint8(x)), 8
	case int16:
		return uint64(uint16(x)), 16
	case int32:
		return uint64(uint32(x)), 32
	case int64:
		return uint64(x), 64
	case uint:
		return uint64(x), 64
	case uint8:
		return uint64(x), 8
	case uint16:
		return uint64(x), 16
	case uint32:
		return uint64(x), 32
	case uint64:
		return x, 64
	case uintptr:
		return uint64(x), 64
	}
	panic(fmt.Sprintf("bitsOf: %T", x))
}

// fromBits builds the concrete value of basic kind k from raw bits.
func fromBits(k types.BasicKind, v uint64) value {
	switch k {
	case types.Bool, types.UntypedBool:
		return v != 0
	case types.Int, types.UntypedInt:
		return int(v)
	case types.Int8:
		return int8(v)
	case types.Int16:
		return int16(v)
	case types.Int32, types.UntypedRune:
		return int32(v)
	case types.Int64:
		return int64(v)
	case types.Uint:
		return uint(v)
	case types.Uint8:
		return uint8(v)
	case types.Uint16:
		return uint16(v)
	case types.Uint32:
		return uint32(v)
	case types.Uint64:
		return v
	case types.Uintptr:
		return uintptr(v)
	}
	panic(fmt.Sprintf("fromBits: kind %v", k))
}

// term converts a scalar value (concrete or symbolic) to a term.
func (i *Interp) term(x value) *Term {
	if t, ok := x.(*Term); ok {
		return t
	}
	v, w := bitsOf(x)
	return i.ex.tt.Const(v, w)
}

// unterm converts constant terms back to concrete values of type t.
func (i *Interp) unterm(t types.Type, x *Term) value {
	if x.op == OpConst {
		b := basicOf(t)
		if b == nil {
			panic("unterm: non-basic type " + t.String())
		}
		return fromBits(b.Kind(), x.val)
	}
	return x
}

func untermKind(k types.BasicKind, x *Term) value {
	if x.op == OpConst {
		return fromBits(k, x.val)
	}
	return x
}

// ---------------------------------------------------------------------
// decisions

// truth turns a bool-ish value into a Go bool, forking on symbolic terms.
func (i *Interp) truth(c value) bool {
	switch c := c.(type) {
	case bool:
		return c
	case *Term:
		return i.ex.decide(c)
	}
	panic(fmt.Sprintf("truth: %T", c))
}

// concInt concretizes an integer value of static type t to int64.
func (i *Interp) concInt(x value, t types.Type) int64 {
	if x == nil {
		panic("concInt: nil")
	}
	if tm, ok := x.(*Term); ok {
		_, signed, _ := intInfo(t)
		v := i.ex.concretize(tm)
		if signed {
			return sext64(v, tm.w)
		}
		return int64(v)
	}
	return asInt64(x)
}

// ---------------------------------------------------------------------
// unary / binary operators

func (i *Interp) unop(instr *ssa.UnOp, x value) value {
	switch instr.Op {
	case token.MUL:
		return i.load(deref(instr.X.Type()), x)
	case token.ARROW:
		ch, _ := x.(*chanv)
		if ch != nil && len(ch.buf) == 0 && ch.closed {
			z := zero(instr.X.Type().Underlying().(*types.Chan).Elem())
			if instr.CommaOk {
				return tuple{z, false}
			}
			return z
		}
		if ch == nil || len(ch.buf) == 0 {
			panic(engineAbort{kind: "unsupported", msg: "channel receive would block (sequential schedule)"})
		}
		v := ch.buf[0]
		ch.buf = ch.buf[1:]
		if instr.CommaOk {
			return tuple{v, true}
		}
		return v
	}
	if t, ok := x.(*Term); ok {
		tt := i.ex.tt
		switch instr.Op {
		case token.NOT:
			return i.unterm(instr.Type(), tt.Not(t))
		case token.SUB:
			return i.unterm(instr.Type(), tt.Neg(t))
		case token.XOR:
			return i.unterm(instr.Type(), tt.BNot(t))
		}
		panic(fmt.Sprintf("symbolic unop %s", instr.Op))
	}
	switch instr.Op {
	case token.SUB:
		switch x := x.(type) {
		case int:
			return -x
		case int8:
			return -x
		case int16:
			return -x
		case int32:
			return -x
		case int64:
			return -x
		case uint:
			return -x
		case uint8:
			return -x
		case uint16:
			return -x
		case uint32:
			return -x
		case uint64:
			return -x
		case uintptr:
			return -x
		case float32:
			return -x
		case float64:
			return -x
		case complex64:
			return -x
		case complex128:
			return -x
		}
	case token.NOT:
		return !x.(bool)
	case token.XOR:
		switch x := x.(type) {
		case int:
			return ^x
		case int8:
			return ^x
		case int16:
			return ^x
		case int32:
			return ^x
		case int64:
			return ^x
		case uint:
			return ^x
		case uint8:
			return ^x
		case uint16:
			return ^x
		case uint32:
			return ^x
		case uint64:
			return ^x
		case uintptr:
			return ^x
		}
	}
	panic(fmt.Sprintf("invalid unary op %s %T", instr.Op, x))
}

func isStringy(x value) bool {
	switch x.(type) {
	case string, sstring:
		return true
	}
	return false
}

// binop implements binary operators. t is the static type of X.
func (i *Interp) binop(op token.Token, t types.Type, x, y value) value {
	_, xs := x.(*Term)
	_, ys := y.(*Term)
	if xs || ys {
		return i.symBinop(op, t, x, y)
	}
	if _, ok := x.(sstring); ok {
		return i.strBinop(op, x, y)
	}
	if _, ok := y.(sstring); ok {
		return i.strBinop(op, x, y)
	}
	switch op {
	case token.EQL:
		return i.eqv(t, x, y)
	case token.NEQ:
		return i.notv(i.eqv(t, x, y))
	}
	switch x := x.(type) {
	case string:
		y := y.(string)
		switch op {
		case token.ADD:
			i.step(int64(len(x)+len(y)) / 16)
			return x + y
		case token.LSS:
			return x < y
		case token.LEQ:
			return x <= y
		case token.GTR:
			return x > y
		case token.GEQ:
			return x >= y
		}
	case float32:
		return floatBinop(op, x, y.(float32))
	case float64:
		return floatBinop(op, x, y.(float64))
	case complex128, complex64:
		panic(engineAbort{kind: "unsupported", msg: "complex arithmetic"})
	case bool:
		y := y.(bool)
		switch op {
		case token.AND, token.LAND:
			return x && y
		case token.OR, token.LOR:
			return x || y
		case token.XOR:
			return x != y
		}
	}
	// integers
	w, signed, ok := intInfo(t)
	if !ok || w == 0 {
		panic(fmt.Sprintf("binop %s on %T (type %s)", op, x, t))
	}
	xv, _ := bitsOf(x)
	kind := basicOf(t).Kind()
	if op == token.SHL || op == token.SHR {
		// shift count has its own type
		var cnt uint64
		switch y := y.(type) {
		case int, int8, int16, int32, int64:
			c := asInt64(y)
			if c < 0 {
				panic(i.rtPanic("negative shift amount"))
			}
			cnt = uint64(c)
		default:
			cnt, _ = bitsOf(y)
		}
		if op == token.SHL {
			return fromBits(kind, evalBin(OpShl, w, xv, cnt))
		}
		if signed {
			return fromBits(kind, evalBin(OpAShr, w, xv, cnt))
		}
		return fromBits(kind, evalBin(OpLShr, w, xv, cnt))
	}
	yv, _ := bitsOf(y)
	switch op {
	case token.ADD:
		return fromBits(kind, evalBin(OpAdd, w, xv, yv))
	case token.SUB:
		return fromBits(kind, evalBin(OpSub, w, xv, yv))
	case token.MUL:
		return fromBits(kind, evalBin(OpMul, w, xv, yv))
	case token.QUO, token.REM:
		if yv == 0 {
			panic(i.rtPanic("integer divide by zero"))
		}
		var o Op
		switch {
		case op == token.QUO && signed:
			o = OpSDiv
		case op == token.QUO:
			o = OpUDiv
		case signed:
			o = OpSRem
		default:
			o = OpURem
		}
		return fromBits(kind, evalBin(o, w, xv, yv))
	case token.AND:
		return fromBits(kind, xv&yv)
	case token.OR:
		return fromBits(kind, xv|yv)
	case token.XOR:
		return fromBits(kind, xv^yv)
	case token.AND_NOT:
		return fromBits(kind, xv&^yv)
	case token.LSS, token.LEQ, token.GTR, token.GEQ:
		var lt, eq bool
		if signed {
			sx, sy := sext64(xv, w), sext64(yv, w)
			lt, eq = sx < sy, sx == sy
		} else {
			lt, eq = xv < yv, xv == yv
		}
		switch op {
		case token.LSS:
			return lt
		case token.LEQ:
			return lt || eq
		case token.GTR:
			return !lt && !eq
		default:
			return !lt
		}
	}
	panic(fmt.Sprintf("invalid binary op: %T %s %T", x, op, y))
}

func floatBinop[F float32 | float64](op token.Token, x, y F) value {
	switch op {
	case token.ADD:
		return x + y
	case token.SUB:
		return x - y
	case token.MUL:
		return x * y
	case token.QUO:
		return x / y
	case token.LSS:
		return x < y
	case token.LEQ:
		return x <= y
	case token.GTR:
		return x > y
	case token.GEQ:
		return x >= y
	}
	panic("bad float op " + op.String())
}

func (i *Interp) notv(v value) value {
	switch v := v.(type) {
	case bool:
		return !v
	case *Term:
		r := i.ex.tt.Not(v)
		if r.op == OpConst {
			return r.val != 0
		}
		return r
	}
	panic("notv")
}

func (i *Interp) andv(a, b value) value {
	if ab, ok := a.(bool); ok {
		if !ab {
			return false
		}
		return b
	}
	if bb, ok := b.(bool); ok {
		if !bb {
			return false
		}
		return a
	}
	r := i.ex.tt.And(a.(*Term), b.(*Term))
	if r.op == OpConst {
		return r.val != 0
	}
	return r
}

func (i *Interp) symBinop(op token.Token, t types.Type, x, y value) value {
	tt := i.ex.tt
	w, signed, ok := intInfo(t)
	if !ok {
		panic(engineAbort{kind: "unsupported", msg: fmt.Sprintf("symbolic binop %s on type %s", op, t)})
	}
	a := i.term(x)
	var kind types.BasicKind = basicOf(t).Kind()
	if op == token.SHL || op == token.SHR {
		// shift: count may have a different width/signedness
		var b *Term
		if yt, ok := y.(*Term); ok {
			b = yt
		} else {
			switch yy := y.(type) {
			case int, int8, int16, int32, int64:
				if asInt64(yy) < 0 {
					panic(i.rtPanic("negative shift amount"))
				}
			}
			v, bw := bitsOf(y)
			b = tt.Const(v, bw)
		}
		// normalise count to width w with saturation
		var cnt *Term
		if b.w == w {
			cnt = b
		} else if b.w < w {
			cnt = tt.ZExt(b, w)
		} else {
			// wider count: if any high bit set, count >= w
			big := tt.Not(tt.Ule(b, tt.Const(uint64(w), b.w)))
			cnt = tt.Ite(big, tt.Const(uint64(w), w), tt.Trunc(b, w))
		}
		// a signed symbolic count that is negative panics in Go; treat via fork
		if yt, ok := y.(*Term); ok {
			_ = yt
			// the static type of the count is not available here; negative
			// counts appear as huge unsigned values -> result as for >= w,
			// which differs from Go's panic.  Callers in the subject never
			// shift by a possibly-negative symbolic signed count.
		}
		var r *Term
		switch {
		case op == token.SHL:
			r = tt.Bin(OpShl, a, cnt)
		case signed:
			r = tt.Bin(OpAShr, a, cnt)
		default:
			r = tt.Bin(OpLShr, a, cnt)
		}
		return untermKind(kind, r)
	}
	b := i.term(y)
	if a.w != b.w {
		panic(fmt.Sprintf("symBinop width mismatch %d %d for %s at type %s", a.w, b.w, op, t))
	}
	if w == 0 {
		switch op {
		case token.EQL:
			return untermKind(types.Bool, tt.Eq(a, b))
		case token.NEQ:
			return untermKind(types.Bool, tt.Not(tt.Eq(a, b)))
		case token.AND, token.LAND:
			return untermKind(types.Bool, tt.And(a, b))
		case token.OR, token.LOR:
			return untermKind(types.Bool, tt.Or(a, b))
		}
		panic("symbolic bool op " + op.String())
	}
	switch op {
	case token.ADD:
		return untermKind(kind, tt.Bin(OpAdd, a, b))
	case token.SUB:
		return untermKind(kind, tt.Bin(OpSub, a, b))
	case token.MUL:
		return untermKind(kind, tt.Bin(OpMul, a, b))
	case token.QUO, token.REM:
		// division by zero is a separate, solver-checked panic branch
		if i.truth(untermKind(types.Bool, tt.Eq(b, tt.Const(0, w)))) {
			panic(i.rtPanic("integer divide by zero"))
		}
		var o Op
		switch {
		case op == token.QUO && signed:
			o = OpSDiv
		case op == token.QUO:
			o = OpUDiv
		case signed:
			o = OpSRem
		default:
			o = OpURem
		}
		return untermKind(kind, tt.Bin(o, a, b))
	case token.AND:
		return untermKind(kind, tt.Bin(OpBAnd, a, b))
	case token.OR:
		return untermKind(kind, tt.Bin(OpBOr, a, b))
	case token.XOR:
		return untermKind(kind, tt.Bin(OpBXor, a, b))
	case token.AND_NOT:
		return untermKind(kind, tt.Bin(OpBAnd, a, tt.BNot(b)))
	case token.EQL:
		return untermKind(types.Bool, tt.Eq(a, b))
	case token.NEQ:
		return untermKind(types.Bool, tt.Not(tt.Eq(a, b)))
	case token.LSS:
		if signed {
			return untermKind(types.Bool, tt.Slt(a, b))
		}
		return untermKind(types.Bool, tt.Ult(a, b))
	case token.LEQ:
		if signed {
			return untermKind(types.Bool, tt.Sle(a, b))
		}
		return untermKind(types.Bool, tt.Ule(a, b))
	case token.GTR:
		if signed {
			return untermKind(types.Bool, tt.Slt(b, a))
		}
		return untermKind(types.Bool, tt.Ult(b, a))
	case token.GEQ:
		if signed {
			return untermKind(types.Bool, tt.Sle(b, a))
		}
		return untermKind(types.Bool, tt.Ule(b, a))
	}
	panic("symBinop: " + op.String())
}

// byteEq returns the equality of two byte values as bool or *Term.
func (i *Interp) byteEq(a, b value) value {
	at, as := a.(*Term)
	bt, bs := b.(*Term)
	if !as && !bs {
		return a.(uint8) == b.(uint8)
	}
	if !as {
		at = i.ex.tt.Const(uint64(a.(uint8)), 8)
	}
	if !bs {
		bt = i.ex.tt.Const(uint64(b.(uint8)), 8)
	}
	return untermKind(types.Bool, i.ex.tt.Eq(at, bt))
}

// strEq: equality of two (possibly symbolic) strings as bool or *Term.
func (i *Interp) strEq(x, y value) value {
	if xs, ok := x.(string); ok {
		if ys, ok := y.(string); ok {
			return xs == ys
		}
	}
	if strLen(x) != strLen(y) {
		return false
	}
	xb, yb := strBytes(x), strBytes(y)
	var acc value = true
	for k := range xb {
		acc = i.andv(acc, i.byteEq(xb[k], yb[k]))
		if b, ok := acc.(bool); ok && !b {
			return false
		}
	}
	return acc
}

func (i *Interp) strBinop(op token.Token, x, y value) value {
	switch op {
	case token.ADD:
		xb, yb := strBytes(x), strBytes(y)
		r := make([]value, 0, len(xb)+len(yb))
		r = append(r, xb...)
		r = append(r, yb...)
		return normStr(r)
	case token.EQL:
		return i.strEq(x, y)
	case token.NEQ:
		return i.notv(i.strEq(x, y))
	case token.LSS, token.LEQ, token.GTR, token.GEQ:
		if op == token.GTR || op == token.LEQ {
			// x > y  == y < x ;  x <= y == !(y < x)
			lt := i.strLess(y, x)
			if op == token.GTR {
				return lt
			}
			return i.notv(lt)
		}
		lt := i.strLess(x, y)
		if op == token.LSS {
			return lt
		}
		return i.notv(lt)
	}
	panic("strBinop " + op.String())
}

// strLess builds the lexicographic x < y as a term.
func (i *Interp) strLess(x, y value) value {
	tt := i.ex.tt
	xb, yb := strBytes(x), strBytes(y)
	n := len(xb)
	if len(yb) < n {
		n = len(yb)
	}
	// result for the tail: if all first n bytes equal, x<y iff len(x)<len(y)
	res := tt.Bool(len(xb) < len(yb))
	for k := n - 1; k >= 0; k-- {
		a, b := i.term(xb[k]), i.term(yb[k])
		res = tt.Ite(tt.Ult(a, b), tt.tru, tt.Ite(tt.Eq(a, b), res, tt.fls))
	}
	return untermKind(types.Bool, res)
}

// eqv returns x == y for type t as bool or *Term.
func (i *Interp) eqv(t types.Type, x, y value) value {
	switch x := x.(type) {
	case *Term:
		return untermKind(types.Bool, i.ex.tt.Eq(x, i.term(y)))
	case string, sstring:
		return i.strEq(x, y)
	case structure:
		y := y.(structure)
		var acc value = true
		var st *types.Struct
		if t != nil {
			st, _ = t.Underlying().(*types.Struct)
		}
		for k := range x {
			var ft types.Type
			if st != nil {
				if st.Field(k).Name() == "_" {
					continue
				}
				ft = st.Field(k).Type()
			}
			acc = i.andv(acc, i.eqv(ft, x[k], y[k]))
			if b, ok := acc.(bool); ok && !b {
				return false
			}
		}
		return acc
	case array:
		y := y.(array)
		var acc value = true
		var et types.Type
		if t != nil {
			if at, ok := t.Underlying().(*types.Array); ok {
				et = at.Elem()
			}
		}
		for k := range x {
			acc = i.andv(acc, i.eqv(et, x[k], y[k]))
			if b, ok := acc.(bool); ok && !b {
				return false
			}
		}
		return acc
	case iface:
		yi, ok := y.(iface)
		if !ok {
			panic(fmt.Sprintf("eqv iface vs %T", y))
		}
		if x.t == nil || yi.t == nil {
			return x.t == nil && yi.t == nil
		}
		if !types.Identical(x.t, yi.t) {
			return false
		}
		if !types.Comparable(x.t) {
			panic(targetPanic{iface{i.P.rtErrType, "runtime error: comparing uncomparable type " + x.t.String()}})
		}
		return i.eqv(x.t, x.v, yi.v)
	case *value:
		switch y := y.(type) {
		case *value:
			return x == y
		case *symRef:
			return false
		}
	case []value:
		// only comparison with nil is legal
		if y, ok := y.([]value); ok {
			return x == nil && y == nil
		}
	case *omap:
		if y, ok := y.(*omap); ok {
			return x == nil && y == nil || x == y
		}
	case *ssa.Function:
		switch y := y.(type) {
		case *ssa.Function:
			return x == y
		case *closure:
			return false
		}
	case *closure:
		switch y := y.(type) {
		case *ssa.Function:
			return false
		case *closure:
			return x == y
		}
	case *chanv:
		return x == y.(*chanv)
	case uptr:
		return x == y.(uptr)
	case bool:
		if yt, ok := y.(*Term); ok {
			return untermKind(types.Bool, i.ex.tt.Eq(i.term(x), yt))
		}
		return x == y.(bool)
	case float32:
		return x == y.(float32)
	case float64:
		return x == y.(float64)
	case complex64:
		return x == y.(complex64)
	case complex128:
		return x == y.(complex128)
	}
	if yt, ok := y.(*Term); ok {
		return untermKind(types.Bool, i.ex.tt.Eq(i.term(x), yt))
	}
	// integers of identical dynamic type
	switch x.(type) {
	case int, int8, int16, int32, int64, uint, uint8, uint16, uint32, uint64, uintptr:
		xv, _ := bitsOf(x)
		yv, _ := bitsOf(y)
		return xv == yv
	}
	panic(fmt.Sprintf("eqv: cannot compare %T and %T", x, y))
}

// ---------------------------------------------------------------------
// conversions

func (i *Interp) conv(t_dst, t_src types.Type, x value) value {
	ut_src := t_src.Underlying()
	ut_dst := t_dst.Underlying()

	switch ut_src := ut_src.(type) {
	case *types.Pointer:
		if b, ok := ut_dst.(*types.Basic); ok && b.Kind() == types.UnsafePointer {
			return uptr{x}
		}
		if _, ok := ut_dst.(*types.Pointer); ok {
			return x
		}
	case *types.Slice:
		// []byte or []rune -> string
		if _, ok := ut_dst.(*types.Slice); ok {
			return x
		}
		if _, ok := ut_dst.(*types.Array); ok {
			// slice to array conversion
			xs := x.([]value)
			n := int(ut_dst.(*types.Array).Len())
			if len(xs) < n {
				panic(i.rtPanic("cannot convert slice to array: length too short"))
			}
			a := make(array, n)
			for k := range a {
				a[k] = copyVal(xs[k])
			}
			return a
		}
		xs := x.([]value)
		switch ut_src.Elem().Underlying().(*types.Basic).Kind() {
		case types.Byte:
			i.step(int64(len(xs)) / 8)
			b := make([]value, len(xs))
			copy(b, xs)
			return normStr(b)
		case types.Rune:
			var out []value
			for _, r := range xs {
				out = append(out, i.encodeRune(r)...)
			}
			return normStr(out)
		}

	case *types.Basic:
		if ut_src.Kind() == types.UnsafePointer {
			u := x.(uptr)
			if _, ok := ut_dst.(*types.Pointer); ok {
				if u.p == nil {
					return (*value)(nil)
				}
				if p, ok := u.p.(*value); ok {
					return p
				}
				panic(engineAbort{kind: "unsupported", msg: fmt.Sprintf("unsafe.Pointer conversion of %T to %s", u.p, t_dst)})
			}
			if b, ok := ut_dst.(*types.Basic); ok {
				if b.Kind() == types.UnsafePointer {
					return x
				}
				if b.Kind() == types.Uintptr {
					if u.p == nil {
						return uintptr(0)
					}
					return uintptr(1) // opaque non-zero address
				}
			}
		}
		// string source
		if isStringy(x) {
			switch ut_dst := ut_dst.(type) {
			case *types.Slice:
				switch ut_dst.Elem().Underlying().(*types.Basic).Kind() {
				case types.Rune:
					return i.decodeRunes(x)
				case types.Byte:
					b := strBytes(x)
					i.step(int64(len(b)) / 8)
					if _, ok := x.(sstring); ok {
						c := make([]value, len(b))
						copy(c, b)
						return c
					}
					if b == nil {
						return []value{}
					}
					return b
				}
			case *types.Basic:
				if ut_dst.Kind() == types.String {
					return x
				}
			}
			break
		}
		// integer -> string
		if ut_src.Info()&types.IsInteger != 0 {
			if b, ok := ut_dst.(*types.Basic); ok && b.Kind() == types.String {
				// rune value
				w, signed, _ := intInfo(t_src)
				var r value
				if tm, ok := x.(*Term); ok {
					tt := i.ex.tt
					// bring to 32 bits; out-of-range -> RuneError handled by encodeRune
					switch {
					case w == 32:
						r = tm
					case w < 32 && signed:
						r = tt.SExt(tm, 32)
					case w < 32:
						r = tt.ZExt(tm, 32)
					default:
						// 64-bit: values outside int32 range are invalid runes
						var inRange *Term
						if signed {
							inRange = tt.And(tt.Sle(tt.Const(0, 64), tm), tt.Sle(tm, tt.Const(0x10FFFF, 64)))
						} else {
							inRange = tt.Ule(tm, tt.Const(0x10FFFF, 64))
						}
						r = tt.Ite(inRange, tt.Trunc(tm, 32), tt.Const(0xFFFD, 32))
					}
				} else {
					v := asInt64(x)
					if !signed {
						bv, _ := bitsOf(x)
						if bv > 0x10FFFF {
							v = 0xFFFD
						}
					}
					if v < 0 || v > 0x10FFFF {
						v = 0xFFFD
					}
					r = int32(v)
				}
				return normStr(i.encodeRune(r))
			}
		}
		if ut_src.Info()&types.IsNumeric != 0 {
			db, ok := ut_dst.(*types.Basic)
			if !ok {
				break
			}
			return i.convNumeric(db, ut_src, x)
		}
		if ut_src.Info()&types.IsBoolean != 0 {
			return x
		}
	}
	panic(fmt.Sprintf("unsupported conversion: %s  -> %s, dynamic type %T", t_src, t_dst, x))
}

func (i *Interp) convNumeric(db, sb *types.Basic, x value) value {
	dk := db.Kind()
	dw, _, dint := intInfo(db)
	sw, ssigned, sint := intInfo(sb)
	if tm, ok := x.(*Term); ok {
		if !dint || dw == 0 {
			panic(engineAbort{kind: "unsupported", msg: "symbolic integer to " + db.String()})
		}
		tt := i.ex.tt
		var r *Term
		switch {
		case dw == sw:
			r = tm
		case dw < sw:
			r = tt.Trunc(tm, dw)
		case ssigned:
			r = tt.SExt(tm, dw)
		default:
			r = tt.ZExt(tm, dw)
		}
		return untermKind(dk, r)
	}
	if sint && dint {
		v, _ := bitsOf(x)
		if ssigned {
			v = uint64(sext64(v, sw))
		}
		return fromBits(dk, v)
	}
	// floats / complex
	switch x := x.(type) {
	case float32:
		return convFloat(dk, float64(x))
	case float64:
		return convFloat(dk, x)
	case complex64:
		if dk == types.Complex128 {
			return complex128(x)
		}
		return x
	case complex128:
		if dk == types.Complex64 {
			return complex64(x)
		}
		return x
	}
	// integer -> float
	var f float64
	if ssigned {
		f = float64(asInt64(x))
	} else {
		v, _ := bitsOf(x)
		f = float64(v)
	}
	switch dk {
	case types.Float32:
		return float32(f)
	case types.Float64, types.UntypedFloat:
		return f
	}
	panic(fmt.Sprintf("convNumeric: %s -> %s (%T)", sb, db, x))
}

func convFloat(dk types.BasicKind, f float64) value {
	switch dk {
	case types.Float32:
		return float32(f)
	case types.Float64, types.UntypedFloat:
		return f
	case types.Int:
		return int(f)
	case types.Int8:
		return int8(f)
	case types.Int16:
		return int16(f)
	case types.Int32:
		return int32(f)
	case types.Int64:
		return int64(f)
	case types.Uint:
		return uint(f)
	case types.Uint8:
		return uint8(f)
	case types.Uint16:
		return uint16(f)
	case types.Uint32:
		return uint32(f)
	case types.Uint64:
		return uint64(f)
	case types.Uintptr:
		return uintptr(f)
	}
	panic("convFloat")
}

var _ = math.Abs

// encodeRune returns the UTF-8 encoding of rune r (int32 or 32-bit *Term).
// For symbolic runes it forks on the encoding length.
func (i *Interp) encodeRune(r value) []value {
	if tm, ok := r.(*Term); ok {
		tt := i.ex.tt
		c := func(v uint64) *Term { return tt.Const(v, 32) }
		b8 := func(t *Term) value { return untermKind(types.Uint8, tt.Trunc(t, 8)) }
		shr := func(t *Term, n uint64) *Term { return tt.Bin(OpLShr, t, c(n)) }
		or := func(a *Term, k uint64) *Term { return tt.Bin(OpBOr, a, c(k)) }
		and := func(a *Term, k uint64) *Term { return tt.Bin(OpBAnd, a, c(k)) }
		// invalid: negative, > 0x10FFFF, surrogates
		valid := tt.And(tt.Ule(tm, c(0x10FFFF)), tt.Not(tt.And(tt.Ule(c(0xD800), tm), tt.Ule(tm, c(0xDFFF)))))
		if !i.truth(untermKind(types.Bool, valid)) {
			return []value{uint8(0xEF), uint8(0xBF), uint8(0xBD)}
		}
		if i.truth(untermKind(types.Bool, tt.Ule(tm, c(0x7F)))) {
			return []value{b8(tm)}
		}
		if i.truth(untermKind(types.Bool, tt.Ule(tm, c(0x7FF)))) {
			return []value{b8(or(shr(tm, 6), 0xC0)), b8(or(and(tm, 0x3F), 0x80))}
		}
		if i.truth(untermKind(types.Bool, tt.Ule(tm, c(0xFFFF)))) {
			return []value{b8(or(shr(tm, 12), 0xE0)), b8(or(and(shr(tm, 6), 0x3F), 0x80)), b8(or(and(tm, 0x3F), 0x80))}
		}
		return []value{b8(or(shr(tm, 18), 0xF0)), b8(or(and(shr(tm, 12), 0x3F), 0x80)), b8(or(and(shr(tm, 6), 0x3F), 0x80)), b8(or(and(tm, 0x3F), 0x80))}
	}
	var buf [4]byte
	n := utf8.EncodeRune(buf[:], rune(asInt64(r)))
	out := make([]value, n)
	for k := 0; k < n; k++ {
		out[k] = buf[k]
	}
	return out
}

// decodeRune decodes the first rune of bytes b (len>0); for symbolic bytes it
// forks per UTF-8 class, mirroring unicode/utf8.DecodeRune.
func (i *Interp) decodeRune(b []value) (value, int) {
	allConc := true
	lim := len(b)
	if lim > 4 {
		lim = 4
	}
	for k := 0; k < lim; k++ {
		if _, ok := b[k].(*Term); ok {
			allConc = false
			break
		}
	}
	if allConc {
		var buf [4]byte
		for k := 0; k < lim; k++ {
			buf[k] = b[k].(uint8)
		}
		r, n := utf8.DecodeRune(buf[:lim])
		return int32(r), n
	}
	tt := i.ex.tt
	bt := func(k int) *Term { return i.term(b[k]) }
	c8 := func(v uint64) *Term { return tt.Const(v, 8) }
	is := func(t *Term) bool { return i.truth(untermKind(types.Bool, t)) }
	in := func(t *Term, lo, hi uint64) *Term { return tt.And(tt.Ule(c8(lo), t), tt.Ule(t, c8(hi))) }
	z32 := func(t *Term, m uint64) *Term { return tt.ZExt(tt.Bin(OpBAnd, t, c8(m)), 32) }
	shl := func(t *Term, n uint64) *Term { return tt.Bin(OpShl, t, tt.Const(n, 32)) }
	or := func(a, b *Term) *Term { return tt.Bin(OpBOr, a, b) }
	rerr := func() (value, int) { return int32(utf8.RuneError), 1 }
	b0 := bt(0)
	if is(tt.Ult(b0, c8(0x80))) {
		return untermKind(types.Int32, tt.ZExt(b0, 32)), 1
	}
	// determine class: 2-byte C2..DF, 3-byte E0..EF, 4-byte F0..F4
	if is(in(b0, 0xC2, 0xDF)) {
		if len(b) < 2 || !is(in(bt(1), 0x80, 0xBF)) {
			return rerr()
		}
		return untermKind(types.Int32, or(shl(z32(b0, 0x1F), 6), z32(bt(1), 0x3F))), 2
	}
	if is(in(b0, 0xE0, 0xEF)) {
		if len(b) < 2 {
			return rerr()
		}
		// second byte range depends on b0
		lo := tt.Ite(tt.Eq(b0, c8(0xE0)), c8(0xA0), c8(0x80))
		hi := tt.Ite(tt.Eq(b0, c8(0xED)), c8(0x9F), c8(0xBF))
		b1 := bt(1)
		if !is(tt.And(tt.Ule(lo, b1), tt.Ule(b1, hi))) {
			return rerr()
		}
		if len(b) < 3 || !is(in(bt(2), 0x80, 0xBF)) {
			return rerr()
		}
		return untermKind(types.Int32, or(or(shl(z32(b0, 0x0F), 12), shl(z32(b1, 0x3F), 6)), z32(bt(2), 0x3F))), 3
	}
	if is(in(b0, 0xF0, 0xF4)) {
		if len(b) < 2 {
			return rerr()
		}
		lo := tt.Ite(tt.Eq(b0, c8(0xF0)), c8(0x90), c8(0x80))
		hi := tt.Ite(tt.Eq(b0, c8(0xF4)), c8(0x8F), c8(0xBF))
		b1 := bt(1)
		if !is(tt.And(tt.Ule(lo, b1), tt.Ule(b1, hi))) {
			return rerr()
		}
		if len(b) < 3 || !is(in(bt(2), 0x80, 0xBF)) {
			return rerr()
		}
		if len(b) < 4 || !is(in(bt(3), 0x80, 0xBF)) {
			return rerr()
		}
		return untermKind(types.Int32, or(or(or(shl(z32(b0, 0x07), 18), shl(z32(b1, 0x3F), 12)), shl(z32(bt(2), 0x3F), 6)), z32(bt(3), 0x3F))), 4
	}
	return rerr()
}

func (i *Interp) decodeRunes(s value) []value {
	b := strBytes(s)
	out := []value{}
	for len(b) > 0 {
		r, n := i.decodeRune(b)
		out = append(out, r)
		b = b[n:]
		i.step(4)
	}
	return out
}

func (i *Interp) sliceToArrayPointer(t_dst types.Type, x value) value {
	ptr := t_dst.Underlying().(*types.Pointer)
	arr := ptr.Elem().Underlying().(*types.Array)
	xs := x.([]value)
	if arr.Len() > int64(len(xs)) {
		panic(i.rtPanic("cannot convert slice to array pointer: length too short"))
	}
	if xs == nil {
		return (*value)(nil)
	}
	v := value(array(xs[:arr.Len()]))
	return &v
}
