package main

import (
	"go/types"
	"strings"

	"golang.org/x/tools/go/ssa"
)

const (
	teIgnorePos      = 1
	teIgnoreComments = 2
	teNilEqEmpty     = 4
)

func isSyntaxPos(t types.Type) bool {
	n, ok := t.(*types.Named)
	if !ok {
		return false
	}
	o := n.Obj()
	return o.Name() == "Pos" && o.Pkg() != nil && strings.HasSuffix(o.Pkg().Path(), "/syntax")
}

func isCommentSlice(t types.Type) bool {
	s, ok := t.Underlying().(*types.Slice)
	if !ok {
		return false
	}
	n, ok := s.Elem().(*types.Named)
	if !ok {
		return false
	}
	return n.Obj().Name() == "Comment" && n.Obj().Pkg() != nil && strings.HasSuffix(n.Obj().Pkg().Path(), "/syntax")
}

type ptrPair struct{ a, b *value }

// treeEq is a type-directed deep comparison returning bool or *Term.
func (i *Interp) treeEq(t types.Type, a, b value, mode int, seen map[ptrPair]bool) value {
	if mode&teIgnorePos != 0 && isSyntaxPos(t) {
		return true
	}
	i.step(1)
	switch u := t.Underlying().(type) {
	case *types.Basic:
		return i.eqv(t, a, b)
	case *types.Pointer:
		pa, oka := a.(*value)
		pb, okb := b.(*value)
		if !oka || !okb {
			return false
		}
		if pa == nil || pb == nil {
			return pa == nil && pb == nil
		}
		if pa == pb {
			return true
		}
		k := ptrPair{pa, pb}
		if seen[k] {
			return true
		}
		seen[k] = true
		return i.treeEq(u.Elem(), *pa, *pb, mode, seen)
	case *types.Struct:
		sa, sb := a.(structure), b.(structure)
		var acc value = true
		for k := 0; k < u.NumFields(); k++ {
			ft := u.Field(k).Type()
			if mode&teIgnoreComments != 0 && isCommentSlice(ft) {
				continue
			}
			acc = i.andv(acc, i.treeEq(ft, sa[k], sb[k], mode, seen))
			if bb, ok := acc.(bool); ok && !bb {
				return false
			}
		}
		return acc
	case *types.Slice:
		xa, xb := a.([]value), b.([]value)
		if mode&teNilEqEmpty == 0 && (xa == nil) != (xb == nil) {
			return false
		}
		if len(xa) != len(xb) {
			return false
		}
		var acc value = true
		for k := range xa {
			acc = i.andv(acc, i.treeEq(u.Elem(), xa[k], xb[k], mode, seen))
			if bb, ok := acc.(bool); ok && !bb {
				return false
			}
		}
		return acc
	case *types.Array:
		xa, xb := a.(array), b.(array)
		var acc value = true
		for k := range xa {
			acc = i.andv(acc, i.treeEq(u.Elem(), xa[k], xb[k], mode, seen))
			if bb, ok := acc.(bool); ok && !bb {
				return false
			}
		}
		return acc
	case *types.Interface:
		ia, ib := a.(iface), b.(iface)
		if ia.t == nil || ib.t == nil {
			return ia.t == nil && ib.t == nil
		}
		if !types.Identical(ia.t, ib.t) {
			return false
		}
		return i.treeEq(ia.t, ia.v, ib.v, mode, seen)
	case *types.Map:
		ma, _ := a.(*omap)
		mb, _ := b.(*omap)
		if (ma == nil) != (mb == nil) && mode&teNilEqEmpty == 0 {
			return false
		}
		if ma.length() != mb.length() {
			return false
		}
		var acc value = true
		if ma != nil {
			for _, e := range ma.entries {
				if e.deleted {
					continue
				}
				o := i.mapFind(mb, e.key)
				if o == nil {
					return false
				}
				acc = i.andv(acc, i.treeEq(u.Elem(), e.val, o.val, mode, seen))
			}
		}
		return acc
	case *types.Signature:
		switch fa := a.(type) {
		case *ssa.Function:
			fb, ok := b.(*ssa.Function)
			return ok && fa == fb
		case *closure:
			fb, ok := b.(*closure)
			return ok && (fa == fb || fa != nil && fb != nil && fa.Fn == fb.Fn)
		}
		return false
	case *types.Chan:
		return a == b
	}
	panic(engineAbort{kind: "unsupported", msg: "treeEq on type " + t.String()})
}

func init() {
	verifPrimsExtra["verifTreeEq"] = func(fr *frame, a []value) value {
		x, y := a[0].(iface), a[1].(iface)
		mode := int(asInt64(a[2]))
		if x.t == nil || y.t == nil {
			return x.t == nil && y.t == nil
		}
		if !types.Identical(x.t, y.t) {
			return false
		}
		return fr.i.treeEq(x.t, x.v, y.v, mode, map[ptrPair]bool{})
	}
}
