package main

import (
	"flag"
	"fmt"
	"os"
	"runtime"
	"runtime/debug"
	"runtime/pprof"
	"strconv"
	"strings"
	"time"
)

var verifDir = "/verif"
var noDomain = os.Getenv("SYMGO_NODOMAIN") != ""

func main() {
	debug.SetMaxStack(2 << 30)
	os.Setenv("PATH", "/opt/veriftools/go1.26.8/bin:"+os.Getenv("PATH"))
	os.Setenv("GOTOOLCHAIN", "local")
	os.Setenv("GOFLAGS", "-mod=mod")
	os.Setenv("GOPROXY", "off")
	os.Setenv("GOSUMDB", "off")
	if v := os.Getenv("VERIF_DIR"); v != "" {
		verifDir = v
	}
	if len(os.Args) < 2 {
		fmt.Fprintln(os.Stderr, "usage: symgo run|check|replay ...")
		os.Exit(2)
	}
	switch os.Args[1] {
	case "run":
		os.Exit(cmdRun(os.Args[2:]))
	case "check":
		os.Exit(cmdCheck(os.Args[2:]))
	case "replay":
		os.Exit(cmdReplay(os.Args[2:]))
	default:
		fmt.Fprintln(os.Stderr, "unknown command", os.Args[1])
		os.Exit(2)
	}
}

type paramFlag map[string]int64

func (p paramFlag) String() string { return fmt.Sprint(map[string]int64(p)) }
func (p paramFlag) Set(s string) error {
	k, v, ok := strings.Cut(s, "=")
	if !ok {
		return fmt.Errorf("want name=value")
	}
	n, err := strconv.ParseInt(v, 0, 64)
	if err != nil {
		return err
	}
	p[k] = n
	return nil
}

func cmdRun(args []string) int {
	fs := flag.NewFlagSet("run", flag.ExitOnError)
	pkg := fs.String("pkg", "syntax", "package (relative to module) holding the harness")
	fn := fs.String("fn", "", "harness function")
	workers := fs.Int("j", runtime.NumCPU(), "workers")
	budget := fs.Int64("budget", 20_000_000, "per-path step budget")
	maxPaths := fs.Int64("maxpaths", 0, "path cap (0 = none)")
	ccap := fs.Int("ccap", 300, "concretization fan-out cap")
	timeout := fs.Int("timeout", 10000, "per-query solver timeout (ms)")
	cross := fs.Int("cross", 0, "cross-check every Nth query on z3-new and cvc5 (0 = off)")
	deadline := fs.Duration("deadline", 0, "wall-clock limit")
	verbose := fs.Bool("v", false, "verbose")
	params := paramFlag{}
	fs.Var(params, "p", "harness parameter name=value (repeatable)")
	prof := fs.String("cpuprofile", "", "write cpu profile")
	fs.Parse(args)
	if *prof != "" {
		f, _ := os.Create(*prof)
		pprof.StartCPUProfile(f)
		defer pprof.StopCPUProfile()
	}
	cfg := &Config{Harness: *fn, Pkg: *pkg, Params: params, Workers: *workers, Budget: *budget, MaxPaths: *maxPaths,
		ConcretizeCap: *ccap, TimeoutMs: *timeout, CrossEvery: *cross, KeepSamples: 20, Known: loadKnownIDs()}
	if *deadline > 0 {
		cfg.Deadline = time.Now().Add(*deadline)
	}
	pc, err := loadProgram(verifDir, loadPatterns(*pkg), modPath+"/"+*pkg, *fn)
	if err != nil {
		fmt.Fprintln(os.Stderr, "load:", err)
		return 2
	}
	res, err := runHarness(pc, cfg)
	if err != nil {
		fmt.Fprintln(os.Stderr, "run:", err)
		return 2
	}
	printResult(res, *verbose)
	if len(res.Cexs) > 0 {
		return 1
	}
	return 0
}

func loadPatterns(pkg string) []string {
	pats := []string{modPath + "/" + pkg}
	if _, err := os.Stat(verifDir + "/harness/internal/zzverifshim"); err == nil {
		pats = append(pats, modPath+"/internal/zzverifshim")
	}
	return pats
}

func printResult(res *RunResult, verbose bool) {
	s := &res.Stats
	fmt.Printf("harness %s params=%v: paths=%d done=%d assume-failed=%d violations=%d truncated=%d inconclusive=%d unsupported=%d errors=%d\n",
		res.Cfg.Harness, res.Cfg.Params, s.paths, s.done, s.assumeFailed, s.violations, s.truncated, s.inconclusive, s.unsupported, s.errors)
	fmt.Printf("  forks=%d asserts=%d (solver-proved %d) queries=%d solver=%.1fs steps=%d maxsteps=%d wall=%.1fs (load %.1fs build %.1fs init %.1fs) funcs=%d cross=%d/%d disagree\n",
		s.forks, s.asserts, s.assertsProved, s.queries, s.solverTime.Seconds(), s.steps, s.maxSteps, res.Wall.Seconds(),
		res.LoadTime.Seconds(), res.BuildTime.Seconds(), res.InitTime.Seconds(), len(res.Funcs), s.crossChecked, s.crossDisagree)
	for _, k := range sortedKeys(s.msgs) {
		fmt.Printf("  msg[%d]: %s\n", s.msgs[k], k)
	}
	for _, k := range sortedKeys(s.knownHits) {
		fmt.Printf("  known-finding hit %s: %d paths\n", k, s.knownHits[k])
	}
	for _, k := range sortedKeys(s.reached) {
		fmt.Printf("  reached %s: %d\n", k, s.reached[k])
	}
	for n, c := range res.Cexs {
		if n >= 10 && !verbose {
			fmt.Printf("  … %d more counterexamples\n", len(res.Cexs)-n)
			break
		}
		fmt.Printf("  CEX %s: %s inputs=%s\n", c.Kind, c.Msg, fmtInputs(c.Inputs))
	}
	if verbose {
		for _, r := range res.NonDone {
			if r.Outcome != "violation" {
				fmt.Printf("  %s: %s inputs=%s\n", r.Outcome, r.Msg, fmtInputs(r.Inputs))
			}
		}
		for _, r := range res.Samples {
			fmt.Printf("  sample: steps=%d inputs=%s obs=%v\n", r.Steps, fmtInputs(r.Inputs), r.Observe)
		}
	}
}

func fmtInputs(m map[string]uint64) string {
	var sb strings.Builder
	// group byte arrays
	groups := map[string][]uint64{}
	var scal []string
	for _, k := range sortedKeys(m) {
		if i := strings.Index(k, "["); i > 0 && strings.HasSuffix(k, "]") {
			idx, _ := strconv.Atoi(k[i+1 : len(k)-1])
			g := groups[k[:i]]
			for len(g) <= idx {
				g = append(g, 0)
			}
			g[idx] = m[k]
			groups[k[:i]] = g
		} else {
			scal = append(scal, k)
		}
	}
	for _, k := range sortedKeys(groups) {
		b := make([]byte, len(groups[k]))
		for i, v := range groups[k] {
			b[i] = byte(v)
		}
		fmt.Fprintf(&sb, "%s=%q ", k, b)
	}
	for _, k := range scal {
		fmt.Fprintf(&sb, "%s=%d ", k, int64(m[k]))
	}
	return sb.String()
}
