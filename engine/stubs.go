package main

func cmdCheck(args []string) int  { return 2 }
func cmdReplay(args []string) int { return 2 }
func loadKnownIDs() map[string]bool { return map[string]bool{} }
