package main

// Path exploration by re-execution of decision prefixes, with the concolic
// shortcut (follow the current model; query the solver only for the other
// side), and the verif* assertion primitives.

import (
	"fmt"
	"os"
	"runtime"
	"sort"
	"strconv"
	"strings"
	"sync"
	"time"
)

type decision struct {
	taken bool
	conc  bool   // concretization decision: term == val
	val   uint64 // for conc
}

type workItem struct {
	prefix []decision
	model  map[string]uint64
}

// Counterexample is a violated assertion with a model.
type Counterexample struct {
	Harness string            `json:"harness"`
	Msg     string            `json:"msg"`
	Kind    string            `json:"kind"` // "assert" or "panic"
	Inputs  map[string]uint64 `json:"inputs"`
	Params  map[string]int64  `json:"params"`
	Observe []Obs             `json:"observe,omitempty"`
}

type Obs struct {
	Tag string `json:"tag"`
	Val string `json:"val"` // hex of bytes
}

// PathResult summarises one completed path.
type PathResult struct {
	Outcome string // done, assume, violation, truncated, inconclusive, unsupported, error
	Msg     string
	Steps   int64
	Inputs  map[string]uint64
	Observe []Obs
	Known   []string
	Reached []string
	Cex     *Counterexample
}

// Explorer is the per-path symbolic state of one worker.
type Explorer struct {
	w         *Worker
	tt        *TermTable
	prefix    []decision
	pos       int
	trail     []decision
	modelN    map[string]uint64 // model by variable name
	vals      []uint64          // model by variable index (parallel to tt.vars)
	cache     map[*Term]uint64
	pending   strings.Builder
	declared  []bool
	observe   []Obs
	known     []string
	reached   []string
	inconcl   string
	newItems  []workItem
	nForks    int
	nAsserts  int
	concrete  bool // init phase: no symbolic values allowed
	panicMsg  string
	budgetMsg string // set by verifBudgetFails: running out of steps is a violation
	ds        *domState
	nDom      int
	arena     []uint64
	arenaPos  int
}

func (ex *Explorer) reset(it workItem) {
	ex.tt = NewTermTable()
	ex.prefix = it.prefix
	ex.pos = 0
	ex.trail = ex.trail[:0]
	ex.modelN = it.model
	if ex.modelN == nil {
		ex.modelN = map[string]uint64{}
	}
	ex.vals = ex.vals[:0]
	ex.cache = map[*Term]uint64{}
	ex.pending.Reset()
	ex.declared = ex.declared[:0]
	ex.observe = nil
	ex.known = nil
	ex.reached = nil
	ex.inconcl = ""
	ex.newItems = nil
	ex.panicMsg = ""
	ex.budgetMsg = ""
	ex.ds = newDomState()
	if len(ex.arena) == 256*512 {
		ex.arenaPos = 0
	} else {
		ex.arena, ex.arenaPos = nil, 0
	}
}

// newVar declares (or fetches) a symbolic variable.
func (ex *Explorer) newVar(name string, w uint8) *Term {
	if ex.concrete {
		panic(engineAbort{kind: "unsupported", msg: "symbolic variable during init"})
	}
	n := len(ex.tt.vars)
	t := ex.tt.Var(name, w)
	if len(ex.tt.vars) > n {
		ex.vals = append(ex.vals, ex.modelN[name]&mask1(w))
		ex.declared = append(ex.declared, false)
	}
	return t
}

func (ex *Explorer) eval(t *Term) uint64 {
	return ex.tt.Eval(t, ex.vals, ex.cache)
}

// define queues the solver definitions for t.
func (ex *Explorer) define(t *Term) {
	n0 := ex.pending.Len()
	ex.tt.Define(&ex.pending, t)
	if ex.pending.Len() != n0 {
		// mark declared variables
		for idx, sv := range ex.tt.vars {
			if sv.T.sent {
				ex.declared[idx] = true
			}
		}
	}
}

func (ex *Explorer) assertPC(t *Term) {
	if t.IsTrue() {
		return
	}
	if !noDomain {
		ex.noteConstraint(t)
	}
	ex.define(t)
	ex.pending.WriteString("(assert ")
	ex.pending.WriteString(ex.tt.smtRef(t))
	ex.pending.WriteString(")\n")
}

func (ex *Explorer) flush() {
	if ex.pending.Len() > 0 {
		if ex.w.cross != nil {
			ex.w.pathLog.WriteString(ex.pending.String())
		}
		ex.w.solver.Send(ex.pending.String())
		ex.pending.Reset()
	}
}

// check asks whether pc ∧ extra is satisfiable; on Sat returns a model by name.
func (ex *Explorer) check(extra *Term) (SatResult, map[string]uint64) {
	if extra.IsFalse() {
		return Unsat, nil
	}
	ex.define(extra)
	ex.flush()
	s := ex.w.solver
	s.Send("(push 1)\n(assert " + ex.tt.smtRef(extra) + ")\n")
	res := s.Check()
	var model map[string]uint64
	if res == Sat {
		vals, ok := s.Model(ex.declared)
		if !ok {
			res = Unknown
		} else {
			model = make(map[string]uint64, len(vals))
			for idx, sv := range ex.tt.vars {
				if ex.declared[idx] {
					model[sv.Name] = vals[idx]
				} else {
					model[sv.Name] = ex.vals[idx]
				}
			}
			// sanity: the model must satisfy extra under our own evaluator
			if ex.tt.Eval(extra, valsFrom(ex.tt, model), map[*Term]uint64{}) == 0 {
				ex.w.stats.evalMismatch++
				res = Unknown
			}
		}
	}
	s.Send("(pop 1)\n")
	if ex.w.cross != nil && res != Unknown && ex.w.crossEvery > 0 && s.Queries%ex.w.crossEvery == 0 {
		ex.crossCheck(extra, res)
	}
	return res, model
}

func valsFrom(tt *TermTable, m map[string]uint64) []uint64 {
	v := make([]uint64, len(tt.vars))
	for idx, sv := range tt.vars {
		v[idx] = m[sv.Name]
	}
	return v
}

func (ex *Explorer) adoptModel(m map[string]uint64) {
	ex.modelN = m
	for idx, sv := range ex.tt.vars {
		ex.vals[idx] = m[sv.Name] & mask1(sv.W)
	}
	ex.cache = map[*Term]uint64{}
}

const maxDecisions = 20000

func (ex *Explorer) decide(c *Term) bool {
	if c.op == OpConst {
		return c.val != 0
	}
	tt := ex.tt
	dres := -1
	var wT, wF map[int32]int
	if !noDomain {
		dres, wT, wF = ex.domDecide(c)
		if dres == 1 || dres == 0 {
			// implied by the single-variable constraints of the path: no decision
			ex.nDom++
			return dres == 1
		}
	}
	if ex.pos < len(ex.prefix) {
		d := ex.prefix[ex.pos]
		ex.pos++
		if d.conc {
			panic(engineError{msg: "replay divergence: expected concretization decision"})
		}
		if d.taken {
			ex.assertPC(c)
		} else {
			ex.assertPC(tt.Not(c))
		}
		ex.trail = append(ex.trail, d)
		return d.taken
	}
	if len(ex.trail) > maxDecisions {
		panic(engineAbort{kind: "truncated", msg: "decision limit"})
	}
	b := ex.eval(c) != 0
	other := c
	if b {
		other = tt.Not(c)
	}
	var res SatResult
	var model map[string]uint64
	if dres == 2 {
		// both sides feasible, witness by changing only this variable
		res = Sat
		model = make(map[string]uint64, len(ex.tt.vars))
		for idx, sv := range ex.tt.vars {
			model[sv.Name] = ex.vals[idx]
		}
		w := wT
		if b {
			w = wF
		}
		for x, v := range w {
			model[ex.tt.vars[x].Name] = uint64(v)
		}
		ex.nDom++
	} else {
		if debugAssert {
			fmt.Fprintf(os.Stderr, "decide->solver: sv=%d multi=%v :: %s\n", c.sv, c.sv >= 0 && ex.ds.multi[c.sv], c.String())
		}
		res, model = ex.check(other)
	}
	ex.nForks++
	switch res {
	case Sat:
		np := make([]decision, len(ex.trail)+1)
		copy(np, ex.trail)
		np[len(ex.trail)] = decision{taken: !b}
		ex.newItems = append(ex.newItems, workItem{prefix: np, model: model})
	case Unknown:
		ex.noteInconclusive("solver unknown at branch")
	}
	if b {
		ex.assertPC(c)
	} else {
		ex.assertPC(tt.Not(c))
	}
	ex.trail = append(ex.trail, decision{taken: b})
	return b
}

func (ex *Explorer) noteInconclusive(msg string) {
	if ex.inconcl == "" {
		ex.inconcl = msg
	}
}

// concretize forces t to a single concrete value, forking over all feasible
// values (each alternative becomes a new work item).
func (ex *Explorer) concretize(t *Term) uint64 {
	tt := ex.tt
	fan := 0
	for {
		if t.op == OpConst {
			return t.val
		}
		if ex.pos < len(ex.prefix) {
			d := ex.prefix[ex.pos]
			ex.pos++
			if !d.conc {
				panic(engineError{msg: "replay divergence: expected branch decision"})
			}
			c := tt.Eq(t, tt.Const(d.val, t.w))
			ex.trail = append(ex.trail, d)
			if d.taken {
				ex.assertPC(c)
				return d.val
			}
			ex.assertPC(tt.Not(c))
			fan++
			continue
		}
		if fan > ex.w.cfg.ConcretizeCap {
			panic(engineAbort{kind: "inconclusive", msg: fmt.Sprintf("concretization fan-out > %d", ex.w.cfg.ConcretizeCap)})
		}
		v := ex.eval(t)
		c := tt.Eq(t, tt.Const(v, t.w))
		res, model := ex.check(tt.Not(c))
		ex.nForks++
		switch res {
		case Sat:
			np := make([]decision, len(ex.trail)+1)
			copy(np, ex.trail)
			np[len(ex.trail)] = decision{taken: false, conc: true, val: v}
			ex.newItems = append(ex.newItems, workItem{prefix: np, model: model})
		case Unknown:
			ex.noteInconclusive("solver unknown at concretization")
		}
		ex.assertPC(c)
		ex.trail = append(ex.trail, decision{taken: true, conc: true, val: v})
		return v
	}
}

// assume constrains the path; returns false if infeasible.
func (ex *Explorer) assume(c *Term) {
	if c.op == OpConst {
		if c.val == 0 {
			panic(engineAbort{kind: "assume"})
		}
		return
	}
	if ex.eval(c) != 0 {
		ex.assertPC(c)
		return
	}
	res, model := ex.check(c)
	switch res {
	case Sat:
		ex.adoptModel(model)
		ex.assertPC(c)
	case Unsat:
		panic(engineAbort{kind: "assume"})
	default:
		panic(engineAbort{kind: "inconclusive", msg: "solver unknown at assume"})
	}
}

// assert checks c on all values of this path.
func (ex *Explorer) assert(c *Term, msg string) {
	ex.nAsserts++
	if c.op == OpConst {
		if c.val == 0 {
			panic(engineAbort{kind: "violation", msg: msg})
		}
		return
	}
	if ex.eval(c) == 0 {
		panic(engineAbort{kind: "violation", msg: msg})
	}
	if !noDomain && ex.domProve(c) {
		ex.w.stats.assertsDomain++
		return
	}
	if debugAssert {
		fmt.Fprintf(os.Stderr, "assert->solver: %s :: %s\n", msg, c.String())
	}
	res, model := ex.check(ex.tt.Not(c))
	switch res {
	case Sat:
		ex.adoptModel(model)
		panic(engineAbort{kind: "violation", msg: msg})
	case Unsat:
		ex.w.stats.assertsProved++
		return
	default:
		panic(engineAbort{kind: "inconclusive", msg: "solver unknown at assert: " + msg})
	}
}

func (ex *Explorer) inputs() map[string]uint64 {
	m := make(map[string]uint64, len(ex.tt.vars))
	for idx, sv := range ex.tt.vars {
		m[sv.Name] = ex.vals[idx]
	}
	return m
}

// concValue evaluates a (possibly symbolic) scalar/string under the model.
func (ex *Explorer) concBytes(s value) []byte {
	b := strBytes(s)
	out := make([]byte, len(b))
	for k, x := range b {
		if t, ok := x.(*Term); ok {
			out[k] = byte(ex.eval(t))
		} else {
			out[k] = x.(uint8)
		}
	}
	return out
}

func (ex *Explorer) crossCheck(extra *Term, res SatResult) {
	// Re-run the same query (pc ∧ extra) from scratch on the other solvers.
	w := ex.w
	var sb strings.Builder
	tt2 := ex.tt
	// Build a fresh script: all declared vars and all definitions are
	// regenerated by clearing "sent" marks on a copy walk.
	script := ex.fullScript(extra)
	_ = tt2
	_ = sb
	for _, cs := range w.cross {
		out := cs.Ask("(push 1)\n" + script + "(check-sat)\n(pop 1)\n")
		got := Unknown
		for _, l := range strings.Split(out, "\n") {
			switch strings.TrimSpace(l) {
			case "sat":
				got = Sat
			case "unsat":
				got = Unsat
			}
		}
		w.stats.crossChecked++
		if strings.Contains(out, "(error") || got == Unknown {
			w.stats.crossUnknown++
			continue
		}
		if got != res {
			w.stats.crossDisagree++
			ex.noteInconclusive(fmt.Sprintf("solver disagreement: %s says %s, %s says %s", w.solver.kind, res, cs.kind, got))
		}
	}
}

// fullScript renders pc ∧ extra as a standalone script.
func (ex *Explorer) fullScript(extra *Term) string {
	// collect pc terms from the trail is not retained; instead we keep a log
	// of every assertion text sent on this path.
	var sb strings.Builder
	sb.WriteString(ex.w.pathLog.String())
	sb.WriteString("(assert " + ex.tt.smtRef(extra) + ")\n")
	return sb.String()
}

// ---------------------------------------------------------------------
// worker / driver

type Config struct {
	Harness       string
	Pkg           string
	Params        map[string]int64
	Workers       int
	Budget        int64
	MaxPaths      int64
	ConcretizeCap int
	TimeoutMs     int
	CrossEvery    int
	Deadline      time.Time
	Known         map[string]bool // listed known-finding ids
	StopOnFirst   bool
	KeepSamples   int
}

type Stats struct {
	paths         int64
	done          int64
	assumeFailed  int64
	violations    int64
	truncated     int64
	inconclusive  int64
	unsupported   int64
	errors        int64
	forks         int64
	asserts       int64
	assertsProved int64
	assertsDomain int64
	steps         int64
	queries       int64
	solverTime    time.Duration
	crossChecked  int64
	crossDisagree int64
	crossUnknown  int64
	evalMismatch  int64
	maxSteps      int64
	knownHits     map[string]int64
	reached       map[string]int64
	msgs          map[string]int64
}

type Worker struct {
	id         int
	cfg        *Config
	ip         *Interp
	solver     *Solver
	cross      []*Solver
	crossEvery int
	stats      Stats
	ex         *Explorer
	pathLog    *strings.Builder
}

type Driver struct {
	memCheck time.Time
	cfg      *Config
	pc       *ProgramCtx
	mu       sync.Mutex
	cond     *sync.Cond
	queue    []workItem
	active   int
	stopped  bool
	started  int64
	results  []PathResult // samples + all non-done
	cexs     []*Counterexample
	total    Stats
	samples  []PathResult
}

func (d *Driver) pop() (workItem, bool) {
	d.mu.Lock()
	defer d.mu.Unlock()
	for {
		if d.stopped {
			return workItem{}, false
		}
		if n := len(d.queue); n > 0 {
			it := d.queue[n-1]
			d.queue = d.queue[:n-1]
			d.active++
			d.started++
			return it, true
		}
		if d.active == 0 {
			d.cond.Broadcast()
			return workItem{}, false
		}
		d.cond.Wait()
	}
}

func (d *Driver) finish(items []workItem, r PathResult) {
	d.mu.Lock()
	defer d.mu.Unlock()
	d.active--
	if !d.stopped {
		d.queue = append(d.queue, items...)
	}
	if r.Cex != nil {
		d.cexs = append(d.cexs, r.Cex)
		if d.cfg.StopOnFirst {
			d.stopped = true
		}
	}
	if r.Outcome != "done" && r.Outcome != "assume" && len(d.results) < 200 {
		d.results = append(d.results, r)
	}
	if r.Outcome == "done" && len(d.samples) < d.cfg.KeepSamples {
		d.samples = append(d.samples, r)
	}
	if d.cfg.MaxPaths > 0 && d.started >= d.cfg.MaxPaths && len(d.queue) > 0 {
		d.stopped = true
		d.total.truncated += int64(len(d.queue))
		if d.total.msgs == nil {
			d.total.msgs = map[string]int64{}
		}
		d.total.msgs["path cap reached with work left"] += int64(len(d.queue))
	}
	if !d.cfg.Deadline.IsZero() && time.Now().After(d.cfg.Deadline) && (len(d.queue) > 0 || d.active > 0) && !d.stopped {
		d.stopped = true
		d.total.truncated += int64(len(d.queue))
		if d.total.msgs == nil {
			d.total.msgs = map[string]int64{}
		}
		d.total.msgs["deadline reached with work left"] += int64(len(d.queue))
	}
	// memory guard: a run that outgrows the limit stops expanding and is
	// reported non-exhaustive, like one that reaches its deadline
	if now := time.Now(); now.Sub(d.memCheck) > 2*time.Second && !d.stopped && (len(d.queue) > 0 || d.active > 0) {
		d.memCheck = now
		var ms runtime.MemStats
		runtime.ReadMemStats(&ms)
		if ms.HeapAlloc > memLimitBytes() {
			d.stopped = true
			d.total.truncated += int64(len(d.queue))
			if d.total.msgs == nil {
				d.total.msgs = map[string]int64{}
			}
			d.total.msgs["memory limit reached with work left"] += int64(len(d.queue))
		}
	}
	d.cond.Broadcast()
}

// memLimitBytes: SYMGO_MEM_GB (default 16) gibibytes of Go heap.
func memLimitBytes() uint64 {
	gb := 16
	if v, err := strconv.Atoi(os.Getenv("SYMGO_MEM_GB")); err == nil && v > 0 {
		gb = v
	}
	return uint64(gb) << 30
}

func (w *Worker) runPath(d *Driver, it workItem) (items []workItem, r PathResult) {
	ip := w.ip
	ex := w.ex
	ex.reset(it)
	ip.steps = 0
	ip.depth = 0
	ip.sp = 0
	ip.budget = w.cfg.Budget
	w.solver.Send("(push 1)\n")
	q0, t0 := w.solver.Queries, w.solver.Time
	defer func() {
		p := recover()
		ip.rollback()
		w.solver.Send("(pop 1)\n")
		r.Steps = ip.steps
		r.Inputs = ex.inputs()
		r.Observe = ex.observe
		r.Known = ex.known
		r.Reached = ex.reached
		items = ex.newItems
		st := &w.stats
		st.paths++
		st.forks += int64(ex.nForks)
		st.asserts += int64(ex.nAsserts)
		ex.nForks, ex.nAsserts = 0, 0
		st.steps += ip.steps
		if ip.steps > st.maxSteps {
			st.maxSteps = ip.steps
		}
		st.queries += int64(w.solver.Queries - q0)
		st.solverTime += w.solver.Time - t0
		for _, k := range ex.known {
			st.knownHits[k]++
		}
		for _, k := range ex.reached {
			st.reached[k]++
		}
		mkCex := func(kind, msg string) {
			r.Cex = &Counterexample{Harness: w.cfg.Harness, Msg: msg, Kind: kind, Inputs: r.Inputs, Params: w.cfg.Params, Observe: ex.observe}
		}
		switch p := p.(type) {
		case nil:
			r.Outcome = "done"
		case engineAbort:
			r.Outcome, r.Msg = p.kind, p.msg
			if p.kind == "truncated" && p.msg == "step budget exhausted" && ex.budgetMsg != "" {
				// the harness declared running out of steps a violation
				// (the code under test must return within the budget)
				r.Outcome, r.Msg = "violation", ex.budgetMsg
				p.kind = "violation"
			}
			if p.kind == "violation" {
				if ex.panicMsg != "" {
					r.Msg += " [panic: " + ex.panicMsg + "]"
				}
				mkCex("assert", r.Msg)
			}
		case targetPanic:
			r.Outcome = "violation"
			r.Msg = "uncaught panic: " + ip.panicString(p)
			mkCex("panic", r.Msg)
		case engineError:
			r.Outcome = "error"
			r.Msg = p.msg + " @ " + p.where + "\n" + p.stack
		default:
			r.Outcome = "error"
			r.Msg = fmt.Sprint(p)
		}
		if r.Outcome == "done" && ex.inconcl != "" {
			r.Outcome, r.Msg = "inconclusive", ex.inconcl
		}
		if len(w.solver.Errors) > 0 {
			r.Outcome, r.Msg = "inconclusive", "solver error: "+w.solver.Errors[0]
			w.solver.Errors = nil
		}
		switch r.Outcome {
		case "done":
			st.done++
		case "assume":
			st.assumeFailed++
		case "violation":
			st.violations++
		case "truncated":
			st.truncated++
			st.msgs[r.Msg]++
		case "inconclusive":
			st.inconclusive++
			st.msgs[r.Msg]++
		case "unsupported":
			st.unsupported++
			st.msgs[r.Msg]++
		default:
			st.errors++
			m := r.Msg
			if k := strings.Index(m, "\n"); k > 0 {
				m = m[:k]
			}
			st.msgs[m]++
		}
	}()
	ip.callSSA(nil, w.ip.P.harness, nil, nil)
	return
}

func (s *Stats) add(o *Stats) {
	s.paths += o.paths
	s.done += o.done
	s.assumeFailed += o.assumeFailed
	s.violations += o.violations
	s.truncated += o.truncated
	s.inconclusive += o.inconclusive
	s.unsupported += o.unsupported
	s.errors += o.errors
	s.forks += o.forks
	s.asserts += o.asserts
	s.assertsProved += o.assertsProved
	s.assertsDomain += o.assertsDomain
	s.steps += o.steps
	s.queries += o.queries
	s.solverTime += o.solverTime
	s.crossChecked += o.crossChecked
	s.crossDisagree += o.crossDisagree
	s.crossUnknown += o.crossUnknown
	s.evalMismatch += o.evalMismatch
	if o.maxSteps > s.maxSteps {
		s.maxSteps = o.maxSteps
	}
	if s.knownHits == nil {
		s.knownHits = map[string]int64{}
	}
	if s.reached == nil {
		s.reached = map[string]int64{}
	}
	if s.msgs == nil {
		s.msgs = map[string]int64{}
	}
	for k, v := range o.knownHits {
		s.knownHits[k] += v
	}
	for k, v := range o.reached {
		s.reached[k] += v
	}
	for k, v := range o.msgs {
		s.msgs[k] += v
	}
}

func sortedKeys[V any](m map[string]V) []string {
	ks := make([]string, 0, len(m))
	for k := range m {
		ks = append(ks, k)
	}
	sort.Strings(ks)
	return ks
}

var debugAssert = os.Getenv("SYMGO_DEBUGASSERT") != ""

// domProve: c holds for all values allowed by the single-variable domains
// (sufficient condition; conjunctions are proved conjunct-wise).
func (ex *Explorer) domProve(c *Term) bool {
	if c.IsTrue() {
		return true
	}
	if c.op == OpAnd {
		return ex.domProve(c.a) && ex.domProve(c.b)
	}
	if c.sv >= 0 && ex.smallVar(c.sv) {
		d := ex.domOf(c.sv)
		ts := ex.truthSet(c)
		rest := d.andNot(&ts)
		return rest.empty()
	}
	return false
}
