package main

// Exact finite-domain reasoning for constraints over a single small
// (<= 8 bit) symbolic variable: the candidate set of each such variable is
// kept as a 256-bit set, filtered by every single-variable path constraint.
// A branch condition over one such variable is then decided by evaluating it
// on all remaining candidates; the SMT solver is needed only when several
// variables interact (or for wide variables).

type bitset256 [4]uint64

func (b *bitset256) has(v int) bool { return b[v>>6]&(1<<(uint(v)&63)) != 0 }
func (b *bitset256) set(v int)      { b[v>>6] |= 1 << (uint(v) & 63) }
func (b *bitset256) empty() bool    { return b[0]|b[1]|b[2]|b[3] == 0 }
func (b *bitset256) and(o *bitset256) bitset256 {
	return bitset256{b[0] & o[0], b[1] & o[1], b[2] & o[2], b[3] & o[3]}
}
func (b *bitset256) andNot(o *bitset256) bitset256 {
	return bitset256{b[0] &^ o[0], b[1] &^ o[1], b[2] &^ o[2], b[3] &^ o[3]}
}
func (b *bitset256) first() int {
	for k := 0; k < 4; k++ {
		if b[k] != 0 {
			for j := 0; j < 64; j++ {
				if b[k]&(1<<uint(j)) != 0 {
					return k*64 + j
				}
			}
		}
	}
	return -1
}

type domState struct {
	dom   map[int32]*bitset256
	multi map[int32]bool
	tabs  map[*Term]*[256]uint64
	supp  map[*Term][]int32
}

func newDomState() *domState {
	return &domState{dom: map[int32]*bitset256{}, multi: map[int32]bool{}, tabs: map[*Term]*[256]uint64{}, supp: map[*Term][]int32{}}
}

func (ex *Explorer) smallVar(x int32) bool {
	return x >= 0 && int(x) < len(ex.tt.vars) && ex.tt.vars[x].W <= 8
}

func (ex *Explorer) domOf(x int32) *bitset256 {
	d := ex.ds.dom[x]
	if d == nil {
		d = &bitset256{}
		n := 256
		if w := ex.tt.vars[x].W; w < 8 {
			n = 1 << w
			if w == 0 {
				n = 2
			}
		}
		for v := 0; v < n; v++ {
			d.set(v)
		}
		ex.ds.dom[x] = d
	}
	return d
}

// tab returns the value of single-variable term t for each value of its variable.
func (ex *Explorer) tab(t *Term) *[256]uint64 {
	if r, ok := ex.ds.tabs[t]; ok {
		return r
	}
	r := ex.newTab()
	switch t.op {
	case OpConst:
		for v := range r {
			r[v] = t.val
		}
	case OpVar:
		for v := range r {
			r[v] = uint64(v) & mask1(t.w)
		}
	default:
		var ta, tb, tc *[256]uint64
		if t.a != nil {
			ta = ex.tab(t.a)
		}
		if t.b != nil {
			tb = ex.tab(t.b)
		}
		if t.c != nil {
			tc = ex.tab(t.c)
		}
		b2u := func(b bool) uint64 {
			if b {
				return 1
			}
			return 0
		}
		for v := range r {
			switch t.op {
			case OpNot:
				r[v] = 1 - ta[v]
			case OpAnd:
				r[v] = ta[v] & tb[v]
			case OpOr:
				r[v] = ta[v] | tb[v]
			case OpIte:
				if ta[v] != 0 {
					r[v] = tb[v]
				} else {
					r[v] = tc[v]
				}
			case OpEq:
				r[v] = b2u(ta[v] == tb[v])
			case OpUlt:
				r[v] = b2u(ta[v] < tb[v])
			case OpUle:
				r[v] = b2u(ta[v] <= tb[v])
			case OpSlt:
				r[v] = b2u(sext64(ta[v], t.a.w) < sext64(tb[v], t.a.w))
			case OpSle:
				r[v] = b2u(sext64(ta[v], t.a.w) <= sext64(tb[v], t.a.w))
			case OpBNot:
				r[v] = ^ta[v] & mask(t.w)
			case OpNeg:
				r[v] = -ta[v] & mask(t.w)
			case OpZExt:
				r[v] = ta[v]
			case OpSExt:
				r[v] = uint64(sext64(ta[v], t.a.w)) & mask(t.w)
			case OpExtract:
				r[v] = ta[v] & mask(t.w)
			default:
				r[v] = evalBin(t.op, t.w, ta[v], tb[v])
			}
		}
	}
	ex.ds.tabs[t] = r
	return r
}

// truthSet of a boolean single-variable term.
func (ex *Explorer) truthSet(t *Term) bitset256 {
	tb := ex.tab(t)
	var s bitset256
	for v := 0; v < 256; v++ {
		if tb[v] != 0 {
			s.set(v)
		}
	}
	return s
}

// support lists the variables of t.
func (ex *Explorer) support(t *Term) []int32 {
	if t.sv == -1 {
		return nil
	}
	if t.sv >= 0 {
		return []int32{t.sv}
	}
	if s, ok := ex.ds.supp[t]; ok {
		return s
	}
	seen := map[int32]bool{}
	var out []int32
	for _, ch := range [3]*Term{t.a, t.b, t.c} {
		if ch == nil {
			continue
		}
		for _, v := range ex.support(ch) {
			if !seen[v] {
				seen[v] = true
				out = append(out, v)
			}
		}
	}
	ex.ds.supp[t] = out
	return out
}

// noteConstraint updates domains with an asserted path constraint.
func (ex *Explorer) noteConstraint(t *Term) {
	if t.sv >= 0 && ex.smallVar(t.sv) {
		d := ex.domOf(t.sv)
		ts := ex.truthSet(t)
		*d = d.and(&ts)
		return
	}
	if t.sv == -3 {
		// conjunctions split into their parts first
		if t.op == OpAnd {
			ex.noteConstraint(t.a)
			ex.noteConstraint(t.b)
			return
		}
		for _, v := range ex.support(t) {
			ex.ds.multi[v] = true
		}
	}
}

// conjuncts flattens an And-tree of single-variable terms over small
// variables; ok=false if some leaf is not of that form.
func (ex *Explorer) conjuncts(c *Term, out map[int32]*bitset256) bool {
	if c.op == OpAnd {
		return ex.conjuncts(c.a, out) && ex.conjuncts(c.b, out)
	}
	if c.sv < 0 || !ex.smallVar(c.sv) {
		return false
	}
	ts := ex.truthSet(c)
	if cur, ok := out[c.sv]; ok {
		m := cur.and(&ts)
		out[c.sv] = &m
	} else {
		out[c.sv] = &ts
	}
	return true
}

// domDecide tries to decide boolean term c with the finite-domain procedure.
// result: 1 implied true, 0 implied false, 2 both sides feasible (witness
// assignments for each side returned), -1 not applicable (use the solver).
func (ex *Explorer) domDecide(c *Term) (res int, wTrue, wFalse map[int32]int) {
	neg := false
	for c.op == OpNot {
		c = c.a
		neg = !neg
	}
	flip := func(r int, a, b map[int32]int) (int, map[int32]int, map[int32]int) {
		if !neg {
			return r, a, b
		}
		switch r {
		case 0:
			return 1, nil, nil
		case 1:
			return 0, nil, nil
		}
		return r, b, a
	}
	parts := map[int32]*bitset256{}
	if !ex.conjuncts(c, parts) {
		return -1, nil, nil
	}
	allTrue := true
	anyMulti := false
	wT := map[int32]int{}
	var wF map[int32]int
	for x, ts := range parts {
		d := ex.domOf(x)
		inT := d.and(ts)
		inF := d.andNot(ts)
		if inT.empty() && inF.empty() {
			return -1, nil, nil
		}
		if inT.empty() {
			return flip(0, nil, nil)
		}
		if !inF.empty() {
			allTrue = false
			if wF == nil || x < firstKey(wF) {
				wF = map[int32]int{x: inF.first()}
			}
		}
		wT[x] = inT.first()
		if ex.ds.multi[x] {
			anyMulti = true
		}
	}
	if allTrue {
		return flip(1, nil, nil)
	}
	if anyMulti {
		return -1, nil, nil
	}
	return flip(2, wT, wF)
}

func firstKey(m map[int32]int) int32 {
	for k := range m {
		return k
	}
	return -1
}

// newTab hands out a table from a per-worker arena that is recycled at the
// start of every path.
func (ex *Explorer) newTab() *[256]uint64 {
	if ex.arenaPos+256 > len(ex.arena) {
		ex.arena = make([]uint64, 256*512)
		ex.arenaPos = 0
	}
	r := (*[256]uint64)(ex.arena[ex.arenaPos : ex.arenaPos+256])
	ex.arenaPos += 256
	return r
}
