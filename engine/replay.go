package main

// Native replay: run harnesses as ordinary Go tests against the real build
// (go test -overlay), feeding the solver's models as inputs.

import (
	"encoding/json"
	"fmt"
	"os"
	"os/exec"
	"path/filepath"
	"regexp"
	"sort"
	"strings"
	"time"
)

type NativeCase struct {
	Harness string            `json:"harness"`
	Inputs  map[string]uint64 `json:"inputs"`
	Params  map[string]int64  `json:"params"`
	Known   []string          `json:"known"`
}

type NativeResult struct {
	Status  string   `json:"status"` // pass, assert, panic, assume
	Msg     string   `json:"msg"`
	Observe []Obs    `json:"observe"`
	Known   []string `json:"known_hit"`
}

var harnessFnRe = regexp.MustCompile(`(?m)^func (Verif_[A-Za-z0-9_]+)\(\)`)

const nativePreludeBody = `
import (
	"encoding/hex"
	"encoding/json"
	"fmt"
	"os"
	"testing"
	"time"
)

type verifCaseT struct {
	Harness string            ` + "`json:\"harness\"`" + `
	Inputs  map[string]uint64 ` + "`json:\"inputs\"`" + `
	Params  map[string]int64  ` + "`json:\"params\"`" + `
	Known   []string          ` + "`json:\"known\"`" + `
}
type verifObsT struct {
	Tag string ` + "`json:\"tag\"`" + `
	Val string ` + "`json:\"val\"`" + `
}
type verifResT struct {
	Status  string      ` + "`json:\"status\"`" + `
	Msg     string      ` + "`json:\"msg\"`" + `
	Observe []verifObsT ` + "`json:\"observe\"`" + `
	Known   []string    ` + "`json:\"known_hit\"`" + `
}
type verifStop struct{ kind, msg string }

var verifCur *verifCaseT
var verifRes *verifResT
var verifLastPanic string

func verifIn(id string) uint64            { return verifCur.Inputs[id] }
func verifByte(id string) byte            { return byte(verifIn(id)) }
func verifBool(id string) bool            { return verifIn(id) != 0 }
func verifInt(id string) int              { return int(verifIn(id)) }
func verifInt64(id string) int64          { return int64(verifIn(id)) }
func verifUint64(id string) uint64        { return verifIn(id) }
func verifUint32(id string) uint32        { return uint32(verifIn(id)) }
func verifInt32(id string) int32          { return int32(verifIn(id)) }
func verifBytes(id string, n int) []byte {
	b := make([]byte, n)
	for i := range b {
		b[i] = byte(verifIn(fmt.Sprintf("%s[%d]", id, i)))
	}
	return b
}
func verifString(id string, n int) string { return string(verifBytes(id, n)) }
func verifAssume(c bool) {
	if !c {
		panic(verifStop{"assume", ""})
	}
}
func verifAssert(c bool, msg string) {
	if !c {
		if verifLastPanic != "" {
			msg += " [panic: " + verifLastPanic + "]"
		}
		panic(verifStop{"assert", msg})
	}
}
func verifKnown(id string, c bool) bool {
	for _, k := range verifCur.Known {
		if k == id {
			if c {
				verifRes.Known = append(verifRes.Known, id)
			}
			return c
		}
	}
	return false
}
func verifReach(tag string) {}
func verifNoPanic(f func()) (ok bool) {
	defer func() {
		if r := recover(); r != nil {
			if s, is := r.(verifStop); is {
				panic(s)
			}
			verifLastPanic = fmt.Sprint(r)
			ok = false
		}
	}()
	f()
	return true
}
func verifPanicMsg() string { return verifLastPanic }
func verifParam(name string) int {
	v, ok := verifCur.Params[name]
	if !ok {
		panic("missing harness parameter " + name)
	}
	return int(v)
}
func verifObserve(tag string, s string) {
	verifRes.Observe = append(verifRes.Observe, verifObsT{tag, hex.EncodeToString([]byte(s))})
}
// natively the step clock is wall time (about 50 steps per microsecond)
var verifStart = time.Now()

func verifSteps() int { return int(time.Since(verifStart).Nanoseconds() / 20) }

// verifBudgetFails: the harness must finish; the runner gives up after 5s.
var verifBudgetMsg string

func verifBudgetFails(msg string) { verifBudgetMsg = msg }
func verifIsSym(x any) bool         { return false }
func verifConcretize(x int) int     { return x }
func verifChoice(id string, n int) int { return int(verifIn(id)) }
func verifInSet(b byte, set string) bool {
	for i := 0; i < len(set); i++ {
		if set[i] == b {
			return true
		}
	}
	return false
}

func verifRunOne(c *verifCaseT) (res verifResT) {
	verifCur, verifRes, verifLastPanic = c, &res, ""
	res.Status = "pass"
	defer func() {
		if r := recover(); r != nil {
			if s, is := r.(verifStop); is {
				res.Status, res.Msg = s.kind, s.msg
				return
			}
			res.Status, res.Msg = "panic", fmt.Sprint(r)
		}
	}()
	h := verifHarnesses[c.Harness]
	if h == nil {
		res.Status, res.Msg = "panic", "unknown harness "+c.Harness
		return
	}
	verifBudgetMsg = ""
	verifStart = time.Now()
	h()
	return
}

// verifRunGuarded runs one case in its own goroutine so that a harness which
// armed verifBudgetFails and does not return within 5 seconds is reported (the
// goroutine is abandoned).
func verifRunGuarded(c *verifCaseT) verifResT {
	done := make(chan verifResT, 1)
	go func() { done <- verifRunOne(c) }()
	tick := time.NewTicker(100 * time.Millisecond)
	defer tick.Stop()
	start := time.Now()
	for {
		select {
		case r := <-done:
			return r
		case <-tick.C:
			if verifBudgetMsg != "" && time.Since(start) > 5*time.Second {
				return verifResT{Status: "assert", Msg: verifBudgetMsg + " (no return within 5s natively)"}
			}
		}
	}
}

func TestVerifReplay(t *testing.T) {
	data, err := os.ReadFile(os.Getenv("VERIF_REPLAY_IN"))
	if err != nil {
		t.Fatal(err)
	}
	var cases []verifCaseT
	if err := json.Unmarshal(data, &cases); err != nil {
		t.Fatal(err)
	}
	out := make([]verifResT, len(cases))
	for i := range cases {
		out[i] = verifRunGuarded(&cases[i])
	}
	enc, _ := json.Marshal(out)
	if err := os.WriteFile(os.Getenv("VERIF_REPLAY_OUT"), enc, 0o644); err != nil {
		t.Fatal(err)
	}
}
`

// nativeReplay runs the given cases of harness package relPkg natively.
func nativeReplay(relPkg string, cases []NativeCase) ([]NativeResult, error) {
	if len(cases) == 0 {
		return nil, nil
	}
	work, err := os.MkdirTemp("", "symgo-replay-")
	if err != nil {
		return nil, err
	}
	defer os.RemoveAll(work)
	ov, err := overlayFor(verifDir, true)
	if err != nil {
		return nil, err
	}
	dir := filepath.Join(repoDir, relPkg)
	replace := map[string]string{}
	var fns []string
	n := 0
	for p, data := range ov {
		if filepath.Dir(p) != dir {
			continue
		}
		real := filepath.Join(work, fmt.Sprintf("f%d.go", n))
		n++
		if err := os.WriteFile(real, data, 0o644); err != nil {
			return nil, err
		}
		replace[p] = real
		for _, m := range harnessFnRe.FindAllSubmatch(data, -1) {
			fns = append(fns, string(m[1]))
		}
	}
	sort.Strings(fns)
	pkgName, err := packageNameOf(dir, ov)
	if err != nil {
		return nil, err
	}
	var sb strings.Builder
	sb.WriteString("package " + pkgName + "\n")
	sb.WriteString(nativePreludeBody)
	sb.WriteString("\nvar verifHarnesses = map[string]func(){\n")
	for _, f := range fns {
		fmt.Fprintf(&sb, "\t%q: %s,\n", f, f)
	}
	sb.WriteString("}\n")
	// extra native-only helpers (tree equality etc.)
	sb.WriteString(nativeHelpers)
	pre := filepath.Join(work, "prelude_test.go")
	if err := os.WriteFile(pre, []byte(sb.String()), 0o644); err != nil {
		return nil, err
	}
	replace[filepath.Join(dir, "zz_verif_prelude_test.go")] = pre
	te := filepath.Join(work, "treeeq_test.go")
	if err := os.WriteFile(te, []byte("package "+pkgName+"\n"+nativeTreeEqFile), 0o644); err != nil {
		return nil, err
	}
	replace[filepath.Join(dir, "zz_verif_treeeq_test.go")] = te
	ovj, _ := json.Marshal(map[string]any{"Replace": replace})
	ovf := filepath.Join(work, "overlay.json")
	os.WriteFile(ovf, ovj, 0o644)
	inf := filepath.Join(work, "in.json")
	outf := filepath.Join(work, "out.json")
	cj, _ := json.Marshal(cases)
	os.WriteFile(inf, cj, 0o644)
	cmd := exec.Command("go", "test", "-vet=off", "-count=1", "-overlay", ovf, "-run", "^TestVerifReplay$", "-timeout", "20m", "./"+relPkg)
	cmd.Dir = repoDir
	cmd.Env = append(goEnv(), "VERIF_REPLAY_IN="+inf, "VERIF_REPLAY_OUT="+outf)
	t0 := time.Now()
	outb, err := cmd.CombinedOutput()
	_ = t0
	data, rerr := os.ReadFile(outf)
	if rerr != nil {
		return nil, fmt.Errorf("native replay failed: %v\n%s", err, tailStr(string(outb), 3000))
	}
	var res []NativeResult
	if err := json.Unmarshal(data, &res); err != nil {
		return nil, err
	}
	if len(res) != len(cases) {
		return nil, fmt.Errorf("native replay: %d results for %d cases", len(res), len(cases))
	}
	return res, nil
}

func tailStr(s string, n int) string {
	if len(s) > n {
		return s[len(s)-n:]
	}
	return s
}

const nativeHelpers = `
func verifTreeEq(a, b any, mode int) bool {
	return verifDeepEq(verifReflectValueOf(a), verifReflectValueOf(b), mode, map[[2]uintptr]bool{})
}
`

// nativeTreeEqFile is a separate test file so that its imports do not clash.
const nativeTreeEqFile = `
import (
	"reflect"
	"strings"
)

func verifReflectValueOf(x any) reflect.Value { return reflect.ValueOf(x) }

func verifTypeOf(x any) string {
	if x == nil {
		return "<nil>"
	}
	return reflect.TypeOf(x).String()
}

// verifCensus: reflection-based count of syntax nodes reachable through exported fields.
func verifCensus(root any) map[string]int {
	counts := map[string]int{}
	seen := map[uintptr]bool{}
	isNode := func(t reflect.Type) bool {
		// a Node has Pos() and End() methods returning a syntax.Pos
		m1, ok1 := t.MethodByName("Pos")
		m2, ok2 := t.MethodByName("End")
		return ok1 && ok2 && m1.Type.NumOut() == 1 && m2.Type.NumOut() == 1 && m1.Type.Out(0).Name() == "Pos" && strings.HasSuffix(t.Elem().PkgPath(), "/syntax")
	}
	var visit func(v reflect.Value)
	visit = func(v reflect.Value) {
		switch v.Kind() {
		case reflect.Pointer:
			if v.IsNil() || v.Elem().Kind() != reflect.Struct {
				return
			}
			if seen[v.Pointer()] {
				return
			}
			seen[v.Pointer()] = true
			if isNode(v.Type()) {
				counts[v.Type().String()]++
			}
			e := v.Elem()
			for i := 0; i < e.NumField(); i++ {
				if e.Type().Field(i).IsExported() {
					visit(e.Field(i))
				}
			}
		case reflect.Struct:
			pt := reflect.PointerTo(v.Type())
			if v.Type().Name() != "" && isNode(pt) {
				counts[pt.String()]++
			}
			for i := 0; i < v.NumField(); i++ {
				if v.Type().Field(i).IsExported() {
					visit(v.Field(i))
				}
			}
		case reflect.Interface:
			if !v.IsNil() {
				visit(v.Elem())
			}
		case reflect.Slice, reflect.Array:
			for i := 0; i < v.Len(); i++ {
				visit(v.Index(i))
			}
		}
	}
	visit(reflect.ValueOf(root))
	return counts
}

func verifDeepEq(a, b reflect.Value, mode int, seen map[[2]uintptr]bool) bool {
	if !a.IsValid() || !b.IsValid() {
		return a.IsValid() == b.IsValid()
	}
	if a.Type() != b.Type() {
		return false
	}
	t := a.Type()
	if mode&1 != 0 && t.Name() == "Pos" && strings.HasSuffix(t.PkgPath(), "/syntax") {
		return true
	}
	switch a.Kind() {
	case reflect.Pointer:
		if a.IsNil() || b.IsNil() {
			return a.IsNil() == b.IsNil()
		}
		if a.Pointer() == b.Pointer() {
			return true
		}
		k := [2]uintptr{a.Pointer(), b.Pointer()}
		if seen[k] {
			return true
		}
		seen[k] = true
		return verifDeepEq(a.Elem(), b.Elem(), mode, seen)
	case reflect.Interface:
		if a.IsNil() || b.IsNil() {
			return a.IsNil() == b.IsNil()
		}
		return verifDeepEq(a.Elem(), b.Elem(), mode, seen)
	case reflect.Struct:
		for i := 0; i < a.NumField(); i++ {
			ft := t.Field(i).Type
			if mode&2 != 0 && ft.Kind() == reflect.Slice && ft.Elem().Name() == "Comment" && strings.HasSuffix(ft.Elem().PkgPath(), "/syntax") {
				continue
			}
			if !verifDeepEq(a.Field(i), b.Field(i), mode, seen) {
				return false
			}
		}
		return true
	case reflect.Slice:
		if mode&4 == 0 && a.IsNil() != b.IsNil() {
			return false
		}
		if a.Len() != b.Len() {
			return false
		}
		for i := 0; i < a.Len(); i++ {
			if !verifDeepEq(a.Index(i), b.Index(i), mode, seen) {
				return false
			}
		}
		return true
	case reflect.Array:
		for i := 0; i < a.Len(); i++ {
			if !verifDeepEq(a.Index(i), b.Index(i), mode, seen) {
				return false
			}
		}
		return true
	case reflect.Map:
		if mode&4 == 0 && a.IsNil() != b.IsNil() {
			return false
		}
		if a.Len() != b.Len() {
			return false
		}
		it := a.MapRange()
		for it.Next() {
			o := b.MapIndex(it.Key())
			if !o.IsValid() || !verifDeepEq(it.Value(), o, mode, seen) {
				return false
			}
		}
		return true
	case reflect.Func:
		if a.IsNil() || b.IsNil() {
			return a.IsNil() == b.IsNil()
		}
		return a.Pointer() == b.Pointer()
	case reflect.String:
		return a.String() == b.String()
	case reflect.Bool:
		return a.Bool() == b.Bool()
	case reflect.Int, reflect.Int8, reflect.Int16, reflect.Int32, reflect.Int64:
		return a.Int() == b.Int()
	case reflect.Uint, reflect.Uint8, reflect.Uint16, reflect.Uint32, reflect.Uint64, reflect.Uintptr:
		return a.Uint() == b.Uint()
	case reflect.Float32, reflect.Float64:
		return a.Float() == b.Float()
	}
	return false
}
`
