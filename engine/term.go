package main

// Terms: hash-consed bit-vector / boolean expression DAG over declared
// symbolic variables, with constant folding, an evaluator (for the concolic
// shortcut and for replay) and an SMT-LIB2 printer.

import (
	"fmt"
	"math/bits"
	"strings"
)

type Op uint8

const (
	OpConst Op = iota
	OpVar
	OpNot // bool
	OpAnd // bool
	OpOr  // bool
	OpIte // cond, a, b (a,b bool or bv)
	OpEq  // a == b (bool or bv operands) -> bool
	OpUlt // -> bool
	OpUle // -> bool
	OpSlt // -> bool
	OpSle // -> bool
	OpAdd
	OpSub
	OpMul
	OpUDiv
	OpURem
	OpSDiv
	OpSRem
	OpBAnd
	OpBOr
	OpBXor
	OpBNot
	OpNeg
	OpShl
	OpLShr
	OpAShr
	OpZExt    // to width w
	OpSExt    // to width w
	OpExtract // low bits [w-1:0] of arg (truncate)
)

var opNames = [...]string{"const", "var", "not", "and", "or", "ite", "=", "bvult", "bvule", "bvslt", "bvsle",
	"bvadd", "bvsub", "bvmul", "bvudiv", "bvurem", "bvsdiv", "bvsrem", "bvand", "bvor", "bvxor", "bvnot", "bvneg",
	"bvshl", "bvlshr", "bvashr", "zext", "sext", "extract"}

// Term is an immutable expression node. w == 0 means Bool.
type Term struct {
	op      Op
	w       uint8
	val     uint64 // OpConst: value (masked); OpVar: variable index
	a, b, c *Term
	id      int32
	sv      int32 // support: -1 none, >=0 the single variable index, -3 several variables
	sent    bool  // defined in the solver for the current path
}

type termKey struct {
	op      Op
	w       uint8
	val     uint64
	a, b, c int32
}

// SymVar describes a declared symbolic variable.
type SymVar struct {
	Name string
	W    uint8 // 0 = bool
	T    *Term
}

// TermTable owns the terms of one path.
type TermTable struct {
	tab   map[termKey]*Term
	next  int32
	vars  []*SymVar
	byNam map[string]*SymVar
	tru   *Term
	fls   *Term
}

func NewTermTable() *TermTable {
	tt := &TermTable{tab: make(map[termKey]*Term, 1024), byNam: map[string]*SymVar{}}
	tt.fls = tt.mk(OpConst, 0, 0, nil, nil, nil)
	tt.tru = tt.mk(OpConst, 0, 1, nil, nil, nil)
	return tt
}

func tid(t *Term) int32 {
	if t == nil {
		return -1
	}
	return t.id
}

func (tt *TermTable) mk(op Op, w uint8, val uint64, a, b, c *Term) *Term {
	k := termKey{op, w, val, tid(a), tid(b), tid(c)}
	if t, ok := tt.tab[k]; ok {
		return t
	}
	t := &Term{op: op, w: w, val: val, a: a, b: b, c: c, id: tt.next, sv: -1}
	if op == OpVar {
		t.sv = int32(val)
	} else {
		for _, ch := range [3]*Term{a, b, c} {
			if ch == nil || ch.sv == -1 {
				continue
			}
			if t.sv == -1 {
				t.sv = ch.sv
			} else if t.sv != ch.sv {
				t.sv = -3
			}
		}
	}
	tt.next++
	tt.tab[k] = t
	return t
}

func mask(w uint8) uint64 {
	if w >= 64 {
		return ^uint64(0)
	}
	return (uint64(1) << w) - 1
}

func sext64(v uint64, w uint8) int64 {
	if w >= 64 {
		return int64(v)
	}
	sh := 64 - uint(w)
	return int64(v<<sh) >> sh
}

func (tt *TermTable) Var(name string, w uint8) *Term {
	if sv, ok := tt.byNam[name]; ok {
		if sv.W != w {
			panic(fmt.Sprintf("symbolic variable %q redeclared with width %d (was %d)", name, w, sv.W))
		}
		return sv.T
	}
	sv := &SymVar{Name: name, W: w}
	sv.T = tt.mk(OpVar, w, uint64(len(tt.vars)), nil, nil, nil)
	tt.vars = append(tt.vars, sv)
	tt.byNam[name] = sv
	return sv.T
}

func (tt *TermTable) Const(v uint64, w uint8) *Term {
	if w == 0 {
		if v != 0 {
			return tt.tru
		}
		return tt.fls
	}
	return tt.mk(OpConst, w, v&mask(w), nil, nil, nil)
}

func (tt *TermTable) Bool(b bool) *Term {
	if b {
		return tt.tru
	}
	return tt.fls
}

func (t *Term) IsConst() bool { return t.op == OpConst }
func (t *Term) IsTrue() bool  { return t.op == OpConst && t.w == 0 && t.val == 1 }
func (t *Term) IsFalse() bool { return t.op == OpConst && t.w == 0 && t.val == 0 }

func (tt *TermTable) Not(a *Term) *Term {
	if a.w != 0 {
		panic("Not on non-bool")
	}
	if a.op == OpConst {
		return tt.Bool(a.val == 0)
	}
	if a.op == OpNot {
		return a.a
	}
	return tt.mk(OpNot, 0, 0, a, nil, nil)
}

func (tt *TermTable) And(a, b *Term) *Term {
	if a.IsFalse() || b.IsFalse() {
		return tt.fls
	}
	if a.IsTrue() {
		return b
	}
	if b.IsTrue() {
		return a
	}
	if a == b {
		return a
	}
	if a.id > b.id {
		a, b = b, a
	}
	return tt.mk(OpAnd, 0, 0, a, b, nil)
}

func (tt *TermTable) Or(a, b *Term) *Term {
	if a.IsTrue() || b.IsTrue() {
		return tt.tru
	}
	if a.IsFalse() {
		return b
	}
	if b.IsFalse() {
		return a
	}
	if a == b {
		return a
	}
	if a.id > b.id {
		a, b = b, a
	}
	return tt.mk(OpOr, 0, 0, a, b, nil)
}

func (tt *TermTable) Ite(c, a, b *Term) *Term {
	if c.IsTrue() {
		return a
	}
	if c.IsFalse() {
		return b
	}
	if a == b {
		return a
	}
	if a.w != b.w {
		panic(fmt.Sprintf("Ite width mismatch %d %d", a.w, b.w))
	}
	if a.w == 0 {
		if a.IsTrue() && b.IsFalse() {
			return c
		}
		if a.IsFalse() && b.IsTrue() {
			return tt.Not(c)
		}
		if a.IsTrue() {
			return tt.Or(c, b)
		}
		if a.IsFalse() {
			return tt.And(tt.Not(c), b)
		}
		if b.IsTrue() {
			return tt.Or(tt.Not(c), a)
		}
		if b.IsFalse() {
			return tt.And(c, a)
		}
	}
	return tt.mk(OpIte, a.w, 0, c, a, b)
}

// stripExt: if t is zext/sext of x and the constant cv (width t.w) is
// representable in x's width under that extension, return x and the narrowed
// constant; ok2 false means the constant is out of range for any x.
func stripExt(t *Term, cv uint64) (x *Term, nv uint64, isExt, inRange bool) {
	if t.op == OpZExt {
		x = t.a
		if cv <= mask(x.w) {
			return x, cv, true, true
		}
		return x, 0, true, false
	}
	if t.op == OpSExt {
		x = t.a
		s := sext64(cv, t.w)
		lo := -(int64(1) << (x.w - 1))
		hi := (int64(1) << (x.w - 1)) - 1
		if s >= lo && s <= hi {
			return x, uint64(s) & mask(x.w), true, true
		}
		return x, 0, true, false
	}
	return nil, 0, false, false
}

func (tt *TermTable) Eq(a, b *Term) *Term {
	if a.w != b.w {
		panic(fmt.Sprintf("Eq width mismatch %d %d", a.w, b.w))
	}
	if a == b {
		return tt.tru
	}
	if a.op == OpConst && b.op == OpConst {
		return tt.Bool(a.val == b.val)
	}
	if a.w == 0 {
		// boolean equality
		if a.op == OpConst {
			a, b = b, a
		}
		if b.op == OpConst {
			if b.val == 1 {
				return a
			}
			return tt.Not(a)
		}
	} else {
		if a.op == OpConst {
			a, b = b, a
		}
		if b.op == OpConst {
			if x, nv, isExt, in := stripExt(a, b.val); isExt {
				if !in {
					return tt.fls
				}
				return tt.Eq(x, tt.Const(nv, x.w))
			}
			// ite(c, k1, k2) == k
			if a.op == OpIte && a.b.op == OpConst && a.c.op == OpConst {
				return tt.Ite(a.a, tt.Bool(a.b.val == b.val), tt.Bool(a.c.val == b.val))
			}
		} else if (a.op == OpZExt && b.op == OpZExt || a.op == OpSExt && b.op == OpSExt) && a.a.w == b.a.w {
			return tt.Eq(a.a, b.a)
		}
	}
	if a.id > b.id {
		a, b = b, a
	}
	return tt.mk(OpEq, 0, 0, a, b, nil)
}

func (tt *TermTable) cmp(op Op, a, b *Term) *Term {
	if a.w != b.w || a.w == 0 {
		panic(fmt.Sprintf("cmp width mismatch %d %d", a.w, b.w))
	}
	if a.op == OpConst && b.op == OpConst {
		var r bool
		switch op {
		case OpUlt:
			r = a.val < b.val
		case OpUle:
			r = a.val <= b.val
		case OpSlt:
			r = sext64(a.val, a.w) < sext64(b.val, a.w)
		case OpSle:
			r = sext64(a.val, a.w) <= sext64(b.val, a.w)
		}
		return tt.Bool(r)
	}
	if a == b {
		return tt.Bool(op == OpUle || op == OpSle)
	}
	// narrow comparisons of extended values against constants
	if b.op == OpConst && (a.op == OpZExt || a.op == OpSExt) {
		if r := tt.narrowCmp(op, a, b.val, false); r != nil {
			return r
		}
	}
	if a.op == OpConst && (b.op == OpZExt || b.op == OpSExt) {
		if r := tt.narrowCmp(op, b, a.val, true); r != nil {
			return r
		}
	}
	if op == OpUlt && b.op == OpConst && b.val == 0 {
		return tt.fls
	}
	if op == OpUle && a.op == OpConst && a.val == 0 {
		return tt.tru
	}
	return tt.mk(op, 0, 0, a, b, nil)
}

// narrowCmp simplifies ext(x) OP k (or k OP ext(x) when flipped).
func (tt *TermTable) narrowCmp(op Op, e *Term, k uint64, flipped bool) *Term {
	x := e.a
	signedOp := op == OpSlt || op == OpSle
	if e.op == OpZExt {
		// value of e in [0, 2^xw-1], non-negative as signed too when e.w > x.w
		if e.w <= x.w {
			return nil
		}
		var kv int64
		var kneg bool
		if signedOp {
			kv = sext64(k, e.w)
			kneg = kv < 0
		}
		var kk uint64 = k
		if signedOp {
			if kneg {
				// e >= 0 > k
				if !flipped {
					return tt.fls // e < k or e <= k false
				}
				return tt.tru // k < e
			}
			kk = uint64(kv)
		}
		m := mask(x.w)
		if kk > m {
			// e <= m < kk
			if !flipped {
				return tt.tru
			}
			return tt.fls
		}
		kc := tt.Const(kk, x.w)
		uop := OpUlt
		if op == OpUle || op == OpSle {
			uop = OpUle
		}
		if !flipped {
			return tt.cmp(uop, x, kc)
		}
		return tt.cmp(uop, kc, x)
	}
	if e.op == OpSExt && signedOp {
		kv := sext64(k, e.w)
		lo := -(int64(1) << (x.w - 1))
		hi := (int64(1) << (x.w - 1)) - 1
		if kv > hi {
			if !flipped {
				return tt.tru
			}
			return tt.fls
		}
		if kv < lo {
			if !flipped {
				return tt.fls
			}
			return tt.tru
		}
		kc := tt.Const(uint64(kv), x.w)
		if !flipped {
			return tt.cmp(op, x, kc)
		}
		return tt.cmp(op, kc, x)
	}
	return nil
}

func (tt *TermTable) Ult(a, b *Term) *Term { return tt.cmp(OpUlt, a, b) }
func (tt *TermTable) Ule(a, b *Term) *Term { return tt.cmp(OpUle, a, b) }
func (tt *TermTable) Slt(a, b *Term) *Term { return tt.cmp(OpSlt, a, b) }
func (tt *TermTable) Sle(a, b *Term) *Term { return tt.cmp(OpSle, a, b) }

func evalBin(op Op, w uint8, x, y uint64) uint64 {
	m := mask(w)
	switch op {
	case OpAdd:
		return (x + y) & m
	case OpSub:
		return (x - y) & m
	case OpMul:
		return (x * y) & m
	case OpUDiv:
		if y == 0 {
			return m
		}
		return x / y
	case OpURem:
		if y == 0 {
			return x
		}
		return x % y
	case OpSDiv:
		sx, sy := sext64(x, w), sext64(y, w)
		if sy == 0 {
			if sx < 0 {
				return 1
			}
			return m
		}
		if sy == -1 {
			return uint64(-sx) & m
		}
		return uint64(sx/sy) & m
	case OpSRem:
		sx, sy := sext64(x, w), sext64(y, w)
		if sy == 0 {
			return x
		}
		if sy == -1 {
			return 0
		}
		return uint64(sx%sy) & m
	case OpBAnd:
		return x & y
	case OpBOr:
		return x | y
	case OpBXor:
		return x ^ y
	case OpShl:
		if y >= uint64(w) {
			return 0
		}
		return (x << y) & m
	case OpLShr:
		if y >= uint64(w) {
			return 0
		}
		return x >> y
	case OpAShr:
		sx := sext64(x, w)
		if y >= uint64(w) {
			if sx < 0 {
				return m
			}
			return 0
		}
		return uint64(sx>>y) & m
	}
	panic("evalBin: bad op")
}

func (tt *TermTable) Bin(op Op, a, b *Term) *Term {
	if a.w != b.w || a.w == 0 {
		panic(fmt.Sprintf("Bin %s width mismatch %d %d", opNames[op], a.w, b.w))
	}
	w := a.w
	if a.op == OpConst && b.op == OpConst {
		return tt.Const(evalBin(op, w, a.val, b.val), w)
	}
	switch op {
	case OpAdd, OpBOr, OpBXor:
		if a.op == OpConst && a.val == 0 {
			return b
		}
		if b.op == OpConst && b.val == 0 {
			return a
		}
		if op == OpBXor && a == b {
			return tt.Const(0, w)
		}
		if op == OpBOr && a == b {
			return a
		}
	case OpSub:
		if b.op == OpConst && b.val == 0 {
			return a
		}
		if a == b {
			return tt.Const(0, w)
		}
	case OpMul:
		if a.op == OpConst {
			a, b = b, a
		}
		if b.op == OpConst {
			if b.val == 0 {
				return b
			}
			if b.val == 1 {
				return a
			}
		}
	case OpBAnd:
		if a.op == OpConst {
			a, b = b, a
		}
		if b.op == OpConst {
			if b.val == 0 {
				return b
			}
			if b.val == mask(w) {
				return a
			}
			// zext(x) & k where k covers all of x's bits
			if a.op == OpZExt && b.val&mask(a.a.w) == mask(a.a.w) {
				return a
			}
		}
		if a == b {
			return a
		}
	case OpShl, OpLShr, OpAShr:
		if b.op == OpConst && b.val == 0 {
			return a
		}
		if a.op == OpConst && a.val == 0 {
			return a
		}
	case OpUDiv, OpSDiv:
		if b.op == OpConst && b.val == 1 {
			return a
		}
	}
	switch op {
	case OpAdd, OpMul, OpBAnd, OpBOr, OpBXor:
		if a.id > b.id {
			a, b = b, a
		}
	}
	return tt.mk(op, w, 0, a, b, nil)
}

func (tt *TermTable) BNot(a *Term) *Term {
	if a.op == OpConst {
		return tt.Const(^a.val, a.w)
	}
	if a.op == OpBNot {
		return a.a
	}
	return tt.mk(OpBNot, a.w, 0, a, nil, nil)
}

func (tt *TermTable) Neg(a *Term) *Term {
	if a.op == OpConst {
		return tt.Const(-a.val, a.w)
	}
	if a.op == OpNeg {
		return a.a
	}
	return tt.mk(OpNeg, a.w, 0, a, nil, nil)
}

func (tt *TermTable) ZExt(a *Term, w uint8) *Term {
	if w == a.w {
		return a
	}
	if w < a.w {
		panic("ZExt narrows")
	}
	if a.op == OpConst {
		return tt.Const(a.val, w)
	}
	if a.op == OpZExt {
		return tt.ZExt(a.a, w)
	}
	return tt.mk(OpZExt, w, 0, a, nil, nil)
}

func (tt *TermTable) SExt(a *Term, w uint8) *Term {
	if w == a.w {
		return a
	}
	if w < a.w {
		panic("SExt narrows")
	}
	if a.op == OpConst {
		return tt.Const(uint64(sext64(a.val, a.w)), w)
	}
	if a.op == OpSExt {
		return tt.SExt(a.a, w)
	}
	if a.op == OpZExt { // zext then sext: top bit is zero
		return tt.ZExt(a.a, w)
	}
	return tt.mk(OpSExt, w, 0, a, nil, nil)
}

// Trunc keeps the low w bits.
func (tt *TermTable) Trunc(a *Term, w uint8) *Term {
	if w == a.w {
		return a
	}
	if w > a.w {
		panic("Trunc widens")
	}
	if a.op == OpConst {
		return tt.Const(a.val, w)
	}
	if a.op == OpZExt || a.op == OpSExt {
		if a.a.w == w {
			return a.a
		}
		if a.a.w < w {
			if a.op == OpZExt {
				return tt.ZExt(a.a, w)
			}
			return tt.SExt(a.a, w)
		}
		return tt.Trunc(a.a, w)
	}
	if a.op == OpExtract {
		return tt.Trunc(a.a, w)
	}
	return tt.mk(OpExtract, w, 0, a, nil, nil)
}

// Eval evaluates t under the assignment vals (indexed by variable index;
// missing = 0), memoising in cache.
func (tt *TermTable) Eval(t *Term, vals []uint64, cache map[*Term]uint64) uint64 {
	if t.op == OpConst {
		return t.val
	}
	if v, ok := cache[t]; ok {
		return v
	}
	var r uint64
	b2u := func(b bool) uint64 {
		if b {
			return 1
		}
		return 0
	}
	switch t.op {
	case OpVar:
		if int(t.val) < len(vals) {
			r = vals[t.val] & mask1(t.w)
		}
	case OpNot:
		r = 1 - tt.Eval(t.a, vals, cache)
	case OpAnd:
		r = tt.Eval(t.a, vals, cache)
		if r != 0 {
			r = tt.Eval(t.b, vals, cache)
		}
	case OpOr:
		r = tt.Eval(t.a, vals, cache)
		if r == 0 {
			r = tt.Eval(t.b, vals, cache)
		}
	case OpIte:
		if tt.Eval(t.a, vals, cache) != 0 {
			r = tt.Eval(t.b, vals, cache)
		} else {
			r = tt.Eval(t.c, vals, cache)
		}
	case OpEq:
		r = b2u(tt.Eval(t.a, vals, cache) == tt.Eval(t.b, vals, cache))
	case OpUlt:
		r = b2u(tt.Eval(t.a, vals, cache) < tt.Eval(t.b, vals, cache))
	case OpUle:
		r = b2u(tt.Eval(t.a, vals, cache) <= tt.Eval(t.b, vals, cache))
	case OpSlt:
		r = b2u(sext64(tt.Eval(t.a, vals, cache), t.a.w) < sext64(tt.Eval(t.b, vals, cache), t.a.w))
	case OpSle:
		r = b2u(sext64(tt.Eval(t.a, vals, cache), t.a.w) <= sext64(tt.Eval(t.b, vals, cache), t.a.w))
	case OpBNot:
		r = ^tt.Eval(t.a, vals, cache) & mask(t.w)
	case OpNeg:
		r = -tt.Eval(t.a, vals, cache) & mask(t.w)
	case OpZExt:
		r = tt.Eval(t.a, vals, cache)
	case OpSExt:
		r = uint64(sext64(tt.Eval(t.a, vals, cache), t.a.w)) & mask(t.w)
	case OpExtract:
		r = tt.Eval(t.a, vals, cache) & mask(t.w)
	default:
		r = evalBin(t.op, t.w, tt.Eval(t.a, vals, cache), tt.Eval(t.b, vals, cache))
	}
	cache[t] = r
	return r
}

func mask1(w uint8) uint64 {
	if w == 0 {
		return 1
	}
	return mask(w)
}

func sortOf(w uint8) string {
	if w == 0 {
		return "Bool"
	}
	return fmt.Sprintf("(_ BitVec %d)", w)
}

func constSMT(v uint64, w uint8) string {
	if w == 0 {
		if v != 0 {
			return "true"
		}
		return "false"
	}
	if w%4 == 0 {
		return fmt.Sprintf("#x%0*x", int(w/4), v)
	}
	return fmt.Sprintf("#b%0*b", int(w), v)
}

// smtRef returns the solver-level name of t (constants and variables inline).
func (tt *TermTable) smtRef(t *Term) string {
	switch t.op {
	case OpConst:
		return constSMT(t.val, t.w)
	case OpVar:
		return "v" + fmt.Sprint(t.val)
	}
	return "t" + fmt.Sprint(t.id)
}

// Define appends to sb the declarations/definitions needed so that smtRef(t)
// is meaningful in the solver; marks terms as sent.
func (tt *TermTable) Define(sb *strings.Builder, t *Term) {
	if t == nil || t.sent || t.op == OpConst {
		return
	}
	// iterative post-order to avoid deep recursion
	type fr struct {
		t *Term
		k int
	}
	stack := []fr{{t, 0}}
	for len(stack) > 0 {
		top := &stack[len(stack)-1]
		x := top.t
		if x.sent || x.op == OpConst {
			stack = stack[:len(stack)-1]
			continue
		}
		var child *Term
		switch top.k {
		case 0:
			child = x.a
		case 1:
			child = x.b
		case 2:
			child = x.c
		}
		if top.k < 3 {
			top.k++
			if child != nil && !child.sent && child.op != OpConst {
				stack = append(stack, fr{child, 0})
			}
			continue
		}
		stack = stack[:len(stack)-1]
		x.sent = true
		if x.op == OpVar {
			fmt.Fprintf(sb, "(declare-const v%d %s)\n", x.val, sortOf(x.w))
			continue
		}
		fmt.Fprintf(sb, "(define-fun t%d () %s ", x.id, sortOf(x.w))
		switch x.op {
		case OpZExt:
			fmt.Fprintf(sb, "((_ zero_extend %d) %s)", x.w-x.a.w, tt.smtRef(x.a))
		case OpSExt:
			fmt.Fprintf(sb, "((_ sign_extend %d) %s)", x.w-x.a.w, tt.smtRef(x.a))
		case OpExtract:
			fmt.Fprintf(sb, "((_ extract %d 0) %s)", x.w-1, tt.smtRef(x.a))
		default:
			sb.WriteByte('(')
			sb.WriteString(opNames[x.op])
			for _, c := range []*Term{x.a, x.b, x.c} {
				if c != nil {
					sb.WriteByte(' ')
					sb.WriteString(tt.smtRef(c))
				}
			}
			sb.WriteByte(')')
		}
		sb.WriteString(")\n")
	}
}

func (t *Term) String() string {
	var sb strings.Builder
	t.str(&sb, 0)
	return sb.String()
}

func (t *Term) str(sb *strings.Builder, depth int) {
	if depth > 6 {
		sb.WriteString("…")
		return
	}
	switch t.op {
	case OpConst:
		if t.w == 0 {
			sb.WriteString(constSMT(t.val, 0))
		} else {
			fmt.Fprintf(sb, "%d:%d", t.val, t.w)
		}
	case OpVar:
		fmt.Fprintf(sb, "v%d", t.val)
	default:
		sb.WriteByte('(')
		sb.WriteString(opNames[t.op])
		if t.op == OpZExt || t.op == OpSExt || t.op == OpExtract {
			fmt.Fprintf(sb, "%d", t.w)
		}
		for _, c := range []*Term{t.a, t.b, t.c} {
			if c != nil {
				sb.WriteByte(' ')
				c.str(sb, depth+1)
			}
		}
		sb.WriteByte(')')
	}
}

var _ = bits.Len
