package main

// The SSA interpreter proper: frames, instruction semantics (mixed
// concrete/symbolic), calls, panics, defers.  Derived from
// golang.org/x/tools/go/ssa/interp (BSD licence), rewritten for symbolic
// scalars, deterministic maps, an undo log and explicit run-time checks.

import (
	"fmt"
	"go/token"
	"go/types"
	"runtime"
	"slices"
	"strings"

	"golang.org/x/tools/go/ssa"
)

// targetPanic is a panic of the interpreted program.
type targetPanic struct {
	v value
}

// rtPanic constructs a run-time error panic of the target program.
func (i *Interp) rtPanic(msg string) targetPanic {
	if debugAssert && i.cur != nil {
		msg += " @ " + i.cur.where()
	}
	return targetPanic{iface{i.P.rtErrType, "runtime error: " + msg}}
}

// engineAbort unwinds the whole path.
type engineAbort struct {
	kind string // "assume", "done", "truncated", "inconclusive", "violation", "unsupported"
	msg  string
}

type deferred struct {
	fn   value
	args []value
	tail *deferred
}

type frame struct {
	i         *Interp
	caller    *frame
	cf        *cfunc
	block     *cblock
	prevBlock *ssa.BasicBlock
	regs      []value
	defers    *deferred
	result    value
	panicking bool
	panic     any
	d0        int
	sp0       int
}

type undoRec struct {
	addr *value
	old  value
}

type mapUndo struct {
	m       *omap
	e       *mentry
	kind    uint8 // 0 = value overwritten, 1 = inserted, 2 = deleted
	old     value
	hk      any
	hashed  bool
	oldN    int
	oldLenE int
}

// Interp is one worker's interpreter state.
type Interp struct {
	P        *ProgramCtx
	globals  []value // *value cells
	steps    int64
	budget   int64
	depth    int
	undo     []undoRec
	mundo    []mapUndo
	logging  bool
	ex       *Explorer // current path state (nil during init)
	funcsRun map[*ssa.Function]struct{}
	stack    []value
	sp       int
	cur      *frame
}

func (fr *frame) get(o *opnd) value {
	switch o.kind {
	case kSlot:
		return fr.regs[o.idx]
	case kConst:
		return o.v
	case kGlobal:
		return fr.i.globalAddr(o.idx)
	}
	return nil
}

func (i *Interp) globalAddr(idx int32) value {
	for int(idx) >= len(i.globals) {
		i.globals = append(i.globals, nil)
	}
	if i.globals[idx] == nil {
		g := i.P.prog.globals[idx]
		cell := zero(deref(g.Type()))
		i.globals[idx] = &cell
	}
	return i.globals[idx]
}

// write is the single mutation primitive for memory cells.
func (i *Interp) write(addr *value, v value) {
	if i.logging {
		i.undo = append(i.undo, undoRec{addr, *addr})
	}
	*addr = v
}

func (i *Interp) rollback() {
	for k := len(i.undo) - 1; k >= 0; k-- {
		*i.undo[k].addr = i.undo[k].old
	}
	i.undo = i.undo[:0]
	for k := len(i.mundo) - 1; k >= 0; k-- {
		u := &i.mundo[k]
		switch u.kind {
		case 0:
			u.e.val = u.old
		case 1:
			u.m.entries = u.m.entries[:u.oldLenE]
			if u.hashed {
				delete(u.m.index, u.hk)
			}
			u.m.n = u.oldN
		case 2:
			u.e.deleted = false
			if u.hashed {
				u.m.index[u.hk] = u.e
			}
			u.m.n = u.oldN
		}
	}
	i.mundo = i.mundo[:0]
}

// load returns the value of type T in *addr.
func (i *Interp) load(T types.Type, addr value) value {
	switch a := addr.(type) {
	case *value:
		if a == nil {
			panic(i.rtPanic("invalid memory address or nil pointer dereference"))
		}
		return copyVal(*a)
	case *symRef:
		return i.symLoad(a)
	}
	panic(fmt.Sprintf("load: bad address %T", addr))
}

// store stores value v of type T into *addr.
func (i *Interp) store(T types.Type, addr value, v value) {
	switch a := addr.(type) {
	case *value:
		if a == nil {
			panic(i.rtPanic("invalid memory address or nil pointer dereference"))
		}
		i.storeRec(a, v)
		return
	case *symRef:
		i.symStore(a, v)
		return
	}
	panic(fmt.Sprintf("store: bad address %T", addr))
}

func (i *Interp) storeRec(addr *value, v value) {
	switch rhs := v.(type) {
	case structure:
		lhs, ok := (*addr).(structure)
		if !ok || len(lhs) != len(rhs) {
			i.write(addr, copyVal(v))
			return
		}
		for k := range lhs {
			i.storeRec(&lhs[k], rhs[k])
		}
	case array:
		lhs, ok := (*addr).(array)
		if !ok || len(lhs) != len(rhs) {
			i.write(addr, copyVal(v))
			return
		}
		for k := range lhs {
			i.storeRec(&lhs[k], rhs[k])
		}
	default:
		i.write(addr, v)
	}
}

func (i *Interp) step(n int64) {
	i.steps += n
	if i.steps > i.budget {
		panic(engineAbort{kind: "truncated", msg: "step budget exhausted"})
	}
}

// visitInstr interprets a single instruction. It returns true after Return.
func visitInstr(fr *frame, ci *cinstr) bool {
	i := fr.i
	switch instr := ci.in.(type) {
	case *ssa.DebugRef:
		// no-op

	case *ssa.UnOp:
		fr.regs[ci.dst] = i.unop(instr, fr.get(&ci.ops[0]))

	case *ssa.BinOp:
		fr.regs[ci.dst] = i.binop(instr.Op, instr.X.Type(), fr.get(&ci.ops[0]), fr.get(&ci.ops[1]))

	case *ssa.Call:
		fn, args := prepareCall(fr, &instr.Call, ci.ops)
		fr.regs[ci.dst] = i.call(fr, instr.Pos(), fn, args)

	case *ssa.ChangeInterface:
		fr.regs[ci.dst] = fr.get(&ci.ops[0])

	case *ssa.ChangeType:
		fr.regs[ci.dst] = fr.get(&ci.ops[0])

	case *ssa.Convert:
		fr.regs[ci.dst] = i.conv(instr.Type(), instr.X.Type(), fr.get(&ci.ops[0]))

	case *ssa.MultiConvert:
		fr.regs[ci.dst] = i.conv(instr.Type(), instr.X.Type(), fr.get(&ci.ops[0]))

	case *ssa.SliceToArrayPointer:
		fr.regs[ci.dst] = i.sliceToArrayPointer(instr.Type(), fr.get(&ci.ops[0]))

	case *ssa.MakeInterface:
		fr.regs[ci.dst] = iface{t: instr.X.Type(), v: fr.get(&ci.ops[0])}

	case *ssa.Extract:
		fr.regs[ci.dst] = fr.get(&ci.ops[0]).(tuple)[instr.Index]

	case *ssa.Slice:
		fr.regs[ci.dst] = i.slice(instr, fr.get(&ci.ops[0]), fr.get(&ci.ops[1]), fr.get(&ci.ops[2]), fr.get(&ci.ops[3]))

	case *ssa.Return:
		switch len(ci.ops) {
		case 0:
		case 1:
			fr.result = fr.get(&ci.ops[0])
		default:
			res := make(tuple, len(ci.ops))
			for k := range ci.ops {
				res[k] = fr.get(&ci.ops[k])
			}
			fr.result = res
		}
		fr.block = nil
		return true

	case *ssa.RunDefers:
		fr.runDefers()

	case *ssa.Panic:
		panic(targetPanic{fr.get(&ci.ops[0])})

	case *ssa.Send:
		ch := fr.get(&ci.ops[0]).(*chanv)
		if ch != nil && ch.closed {
			panic(targetPanic{iface{i.P.rtErrType, "send on closed channel"}})
		}
		if ch == nil || len(ch.buf) >= ch.cap {
			panic(engineAbort{kind: "unsupported", msg: "channel send would block (sequential schedule)"})
		}
		ch.buf = append(ch.buf, fr.get(&ci.ops[1]))

	case *ssa.Store:
		i.store(deref(instr.Addr.Type()), fr.get(&ci.ops[0]), fr.get(&ci.ops[1]))

	case *ssa.If:
		succ := 1
		if i.truth(fr.get(&ci.ops[0])) {
			succ = 0
		}
		fr.prevBlock, fr.block = fr.block.b, fr.cf.blocks[fr.block.b.Succs[succ].Index]
		return false

	case *ssa.Jump:
		fr.prevBlock, fr.block = fr.block.b, fr.cf.blocks[fr.block.b.Succs[0].Index]
		return false

	case *ssa.Defer:
		fn, args := prepareCall(fr, &instr.Call, ci.ops[:len(ci.ops)-1])
		defers := &fr.defers
		if into := fr.get(&ci.ops[len(ci.ops)-1]); into != nil {
			defers = into.(**deferred)
		}
		*defers = &deferred{fn: fn, args: args, tail: *defers}

	case *ssa.Go:
		// One legal schedule: the new goroutine runs to completion (or until
		// it would block, which is reported as unsupported) before its parent
		// continues.
		fn, args := prepareCall(fr, &instr.Call, ci.ops)
		i.call(fr, instr.Pos(), fn, args)

	case *ssa.MakeChan:
		n := i.concInt(fr.get(&ci.ops[0]), instr.Size.Type())
		fr.regs[ci.dst] = &chanv{cap: int(n)}

	case *ssa.Alloc:
		addr := new(value)
		*addr = zero(deref(instr.Type()))
		fr.regs[ci.dst] = addr

	case *ssa.MakeSlice:
		ln := i.concInt(fr.get(&ci.ops[0]), instr.Len.Type())
		cp := i.concInt(fr.get(&ci.ops[1]), instr.Cap.Type())
		if ln < 0 || ln > cp || cp > 1<<28 {
			if ln < 0 || ln > cp {
				panic(i.rtPanic("makeslice: len out of range"))
			}
			panic(engineAbort{kind: "unsupported", msg: "huge makeslice"})
		}
		sl := make([]value, cp)
		tElt := instr.Type().Underlying().(*types.Slice).Elem()
		z := zero(tElt)
		switch z.(type) {
		case structure, array:
			for k := range sl {
				sl[k] = zero(tElt)
			}
		default:
			for k := range sl {
				sl[k] = z
			}
		}
		i.step(cp / 8)
		fr.regs[ci.dst] = sl[:ln]

	case *ssa.MakeMap:
		fr.regs[ci.dst] = newMap(instr.Type().Underlying().(*types.Map).Key())

	case *ssa.Range:
		fr.regs[ci.dst] = i.rangeIter(fr.get(&ci.ops[0]))

	case *ssa.Next:
		fr.regs[ci.dst] = fr.get(&ci.ops[0]).(iter).next(i)

	case *ssa.FieldAddr:
		p, ok := fr.get(&ci.ops[0]).(*value)
		if !ok || p == nil {
			panic(i.rtPanic("invalid memory address or nil pointer dereference"))
		}
		fr.regs[ci.dst] = &(*p).(structure)[instr.Field]

	case *ssa.Field:
		fr.regs[ci.dst] = fr.get(&ci.ops[0]).(structure)[instr.Field]

	case *ssa.IndexAddr:
		fr.regs[ci.dst] = i.indexAddr(instr, fr.get(&ci.ops[0]), fr.get(&ci.ops[1]))

	case *ssa.Index:
		fr.regs[ci.dst] = i.index(instr, fr.get(&ci.ops[0]), fr.get(&ci.ops[1]))

	case *ssa.Lookup:
		fr.regs[ci.dst] = i.lookup(instr, fr.get(&ci.ops[0]), fr.get(&ci.ops[1]))

	case *ssa.MapUpdate:
		m, _ := fr.get(&ci.ops[0]).(*omap)
		if m == nil {
			panic(targetPanic{iface{i.P.rtErrType, "assignment to entry in nil map"}})
		}
		i.mapSet(m, fr.get(&ci.ops[1]), fr.get(&ci.ops[2]))

	case *ssa.TypeAssert:
		fr.regs[ci.dst] = i.typeAssert(instr, fr.get(&ci.ops[0]).(iface))

	case *ssa.MakeClosure:
		bindings := make([]value, len(ci.ops)-1)
		for k := range bindings {
			bindings[k] = fr.get(&ci.ops[k+1])
		}
		fr.regs[ci.dst] = &closure{instr.Fn.(*ssa.Function), bindings}

	case *ssa.Select:
		fr.regs[ci.dst] = i.selectStmt(fr, instr, ci)

	default:
		panic(fmt.Sprintf("unexpected instruction: %T", instr))
	}
	return false
}

func prepareCall(fr *frame, call *ssa.CallCommon, ops []opnd) (fn value, args []value) {
	v := fr.get(&ops[0])
	if call.Method == nil {
		fn = v
		args = make([]value, 0, len(ops)-1)
	} else {
		recv := v.(iface)
		if recv.t == nil {
			panic(fr.i.rtPanic("invalid memory address or nil pointer dereference (method call on nil interface)"))
		}
		f := fr.i.P.prog.prog.LookupMethod(recv.t, call.Method.Pkg(), call.Method.Name())
		if f == nil {
			panic(fmt.Sprintf("method set for dynamic type %v does not contain %s", recv.t, call.Method))
		}
		fn = f
		args = make([]value, 0, len(ops))
		args = append(args, recv.v)
	}
	for k := 1; k < len(ops); k++ {
		args = append(args, fr.get(&ops[k]))
	}
	return
}

func (i *Interp) call(caller *frame, callpos token.Pos, fn value, args []value) value {
	switch fn := fn.(type) {
	case *ssa.Function:
		if fn == nil {
			panic(i.rtPanic("invalid memory address or nil pointer dereference (call of nil func)"))
		}
		return i.callSSA(caller, fn, args, nil)
	case *closure:
		return i.callSSA(caller, fn.Fn, args, fn.Env)
	case *ssa.Builtin:
		return i.callBuiltin(caller, fn, args)
	}
	panic(fmt.Sprintf("cannot call %T", fn))
}

const maxDepth = 3000

func (i *Interp) callSSA(caller *frame, fn *ssa.Function, args []value, env []value) value {
	cf := i.P.prog.compiled(fn)
	fr := &frame{i: i, caller: caller, cf: cf}
	if cf.ext != nil {
		i.step(1)
		return cf.ext(fr, args)
	}
	if cf.blocks == nil {
		w := ""
		if caller != nil {
			w = " @ " + caller.where()
		}
		panic(engineAbort{kind: "unsupported", msg: "no code for function: " + cf.name + w})
	}
	if fn.TypeParams().Len() > 0 && len(fn.TypeArgs()) == 0 {
		panic(engineAbort{kind: "unsupported", msg: "uninstantiated generic " + cf.name})
	}
	if i.funcsRun != nil {
		i.funcsRun[cf.fn] = struct{}{}
	}
	fr.d0 = i.depth
	i.depth++
	if i.depth > maxDepth {
		panic(engineAbort{kind: "truncated", msg: "call depth limit"})
	}
	sp0 := i.sp
	if i.sp+cf.nslots <= len(i.stack) {
		fr.regs = i.stack[i.sp : i.sp+cf.nslots : i.sp+cf.nslots]
		clear(fr.regs)
		i.sp += cf.nslots
	} else {
		fr.regs = make([]value, cf.nslots)
	}
	fr.sp0 = i.sp
	fr.block = cf.blocks[0]
	for k, s := range cf.params {
		fr.regs[s] = args[k]
	}
	for k, s := range cf.freevars {
		fr.regs[s] = env[k]
	}
	for fr.block != nil {
		runFrame(fr)
	}
	i.depth = fr.d0
	i.sp = sp0
	return fr.result
}

func runFrame(fr *frame) {
	defer func() {
		if fr.block == nil {
			return // normal return
		}
		p := recover()
		switch p.(type) {
		case targetPanic:
		case engineAbort:
			panic(p)
		default:
			// interpreter error (bug or unsupported): annotate with target location
			if ee, ok := p.(engineError); ok {
				panic(ee)
			}
			buf := make([]byte, 8192)
			buf = buf[:runtime.Stack(buf, false)]
			panic(engineError{msg: fmt.Sprint(p), where: fr.where(), stack: string(buf)})
		}
		fr.panicking = true
		fr.panic = p
		fr.runDefers()
		// recovered
		fr.block = nil
		if fr.cf.fn.Recover != nil {
			fr.block = fr.cf.blocks[fr.cf.fn.Recover.Index]
		} else {
			// no named results: return zero values
			res := fr.cf.fn.Signature.Results()
			switch res.Len() {
			case 0:
				fr.result = nil
			default:
				fr.result = zero(res)
			}
		}
		fr.i.depth = fr.d0 + 1
		fr.i.sp = fr.sp0
	}()

	i := fr.i
	for {
		i.cur = fr
		blk := fr.block
		instrs := blk.instrs
		if blk.nphi > 0 {
			predIndex := slices.Index(blk.b.Preds, fr.prevBlock)
			var tmp [8]value
			temps := tmp[:0]
			for k := 0; k < blk.nphi; k++ {
				temps = append(temps, fr.get(&instrs[k].ops[predIndex]))
			}
			for k := 0; k < blk.nphi; k++ {
				fr.regs[instrs[k].dst] = temps[k]
			}
			instrs = instrs[blk.nphi:]
		}
		i.steps += int64(len(instrs))
		if i.steps > i.budget {
			panic(engineAbort{kind: "truncated", msg: "step budget exhausted"})
		}
		for k := range instrs {
			if visitInstr(fr, &instrs[k]) {
				return
			}
		}
	}
}

type engineError struct {
	msg   string
	where string
	stack string
}

func (fr *frame) where() string {
	var sb strings.Builder
	for f, n := fr, 0; f != nil && n < 12; f, n = f.caller, n+1 {
		sb.WriteString(f.cf.name)
		sb.WriteString(" <- ")
	}
	return sb.String()
}

func (fr *frame) runDefer(d *deferred) {
	var ok bool
	defer func() {
		if !ok {
			p := recover()
			switch p.(type) {
			case targetPanic:
				fr.panicking = true
				fr.panic = p
			default:
				panic(p)
			}
		}
	}()
	fr.i.call(fr, token.NoPos, d.fn, d.args)
	ok = true
}

func (fr *frame) runDefers() {
	for d := fr.defers; d != nil; d = d.tail {
		fr.runDefer(d)
	}
	fr.defers = nil
	if fr.panicking {
		panic(fr.panic)
	}
}

// doRecover implements the recover() built-in.
func doRecover(caller *frame) value {
	if caller != nil && !caller.panicking &&
		caller.caller != nil && caller.caller.panicking {
		caller.caller.panicking = false
		p := caller.caller.panic
		caller.caller.panic = nil
		switch p := p.(type) {
		case targetPanic:
			if _, ok := p.v.(iface); ok {
				return p.v
			}
			return iface{types.Typ[types.String], fmt.Sprint(p.v)}
		default:
			panic(fmt.Sprintf("unexpected panic type %T in target call to recover()", p))
		}
	}
	return iface{}
}

func (i *Interp) typeAssert(instr *ssa.TypeAssert, itf iface) value {
	var v value
	err := ""
	if itf.t == nil {
		err = fmt.Sprintf("interface conversion: interface is nil, not %s", instr.AssertedType)
	} else if idst, ok := instr.AssertedType.Underlying().(*types.Interface); ok {
		v = itf
		if meth, _ := types.MissingMethod(itf.t, idst, true); meth != nil {
			err = fmt.Sprintf("interface conversion: %v is not %v: missing method %s", itf.t, idst, meth.Name())
		}
	} else if types.Identical(itf.t, instr.AssertedType) {
		v = itf.v
	} else {
		err = fmt.Sprintf("interface conversion: interface is %s, not %s", itf.t, instr.AssertedType)
	}
	if err != "" {
		if !instr.CommaOk {
			panic(targetPanic{iface{i.P.rtErrType, err}})
		}
		return tuple{zero(instr.AssertedType), false}
	}
	if instr.CommaOk {
		return tuple{v, true}
	}
	return v
}
