package main

// Intrinsics: harness primitives (verif*), assembly-backed leaves, unsafe
// string/slice helpers, sync/atomic as single-threaded operations.

import (
	"fmt"
	"go/types"
	"math"
	"regexp"
	"strings"
	"unsafe"

	"golang.org/x/tools/go/ssa"
)

type externalFn func(fr *frame, args []value) value

var externals = map[string]externalFn{}

var typeArgRe = regexp.MustCompile(`\[[^\[\]]*\]`)

func lookupExternal(fn *ssa.Function, name string) externalFn {
	if e, ok := externals[name]; ok {
		return e
	}
	if strings.Contains(name, "[") {
		g := name
		for {
			n := typeArgRe.ReplaceAllString(g, "")
			if n == g {
				break
			}
			g = n
		}
		if e, ok := externals[g]; ok {
			return e
		}
	}
	// harness primitives live in whatever package the harness is in
	if fn.Pkg != nil && strings.HasPrefix(fn.Name(), "verif") {
		if e, ok := verifPrims[fn.Name()]; ok {
			return e
		}
		if e, ok := verifPrimsExtra[fn.Name()]; ok {
			return e
		}
	}
	// package initialisers of skipped packages
	if fn.Name() == "init" && fn.Pkg != nil && fn.Signature.Recv() == nil && fn.Parent() == nil {
		if skipInit[fn.Pkg.Pkg.Path()] {
			return extNop
		}
	}
	return nil
}

func extNop(fr *frame, args []value) value { return nil }

func goString(v value) string {
	s, ok := v.(string)
	if !ok {
		panic(engineAbort{kind: "unsupported", msg: "symbolic string where a concrete one is required"})
	}
	return s
}

func (i *Interp) panicString(p targetPanic) string {
	switch v := p.v.(type) {
	case iface:
		if s, ok := v.v.(string); ok {
			return s
		}
		if v.t != nil {
			// error / Stringer values: try calling Error()
			if m := i.P.prog.prog.LookupMethod(v.t, nil, "Error"); m != nil {
				func() {
					defer func() { recover() }()
					if s, ok := i.callSSA(nil, m, []value{v.v}, nil).(string); ok {
						p.v = s
					}
				}()
				if s, ok := p.v.(string); ok {
					return s
				}
			}
			return fmt.Sprintf("(%s) %s", v.t, toString(v.v))
		}
	}
	return toString(p.v)
}

var verifPrims map[string]externalFn
var verifPrimsExtra = map[string]externalFn{}

func symOfKind(fr *frame, id value, w uint8, kind types.BasicKind) value {
	ex := fr.i.ex
	t := ex.newVar(goString(id), w)
	return untermKind(kind, t)
}

func init() {
	verifPrims = map[string]externalFn{
		"verifByte":   func(fr *frame, a []value) value { return symOfKind(fr, a[0], 8, types.Uint8) },
		"verifBool":   func(fr *frame, a []value) value { return symOfKind(fr, a[0], 0, types.Bool) },
		"verifInt":    func(fr *frame, a []value) value { return symOfKind(fr, a[0], 64, types.Int) },
		"verifInt64":  func(fr *frame, a []value) value { return symOfKind(fr, a[0], 64, types.Int64) },
		"verifUint64": func(fr *frame, a []value) value { return symOfKind(fr, a[0], 64, types.Uint64) },
		"verifUint32": func(fr *frame, a []value) value { return symOfKind(fr, a[0], 32, types.Uint32) },
		"verifInt32":  func(fr *frame, a []value) value { return symOfKind(fr, a[0], 32, types.Int32) },
		"verifBytes": func(fr *frame, a []value) value {
			n := int(asInt64(a[1]))
			id := goString(a[0])
			out := make([]value, n)
			for k := range out {
				out[k] = fr.i.ex.newVar(fmt.Sprintf("%s[%d]", id, k), 8)
			}
			return out
		},
		"verifString": func(fr *frame, a []value) value {
			n := int(asInt64(a[1]))
			id := goString(a[0])
			out := make([]value, n)
			for k := range out {
				out[k] = fr.i.ex.newVar(fmt.Sprintf("%s[%d]", id, k), 8)
			}
			return normStr(out)
		},
		"verifAssume": func(fr *frame, a []value) value {
			switch c := a[0].(type) {
			case bool:
				if !c {
					panic(engineAbort{kind: "assume"})
				}
			case *Term:
				fr.i.ex.assume(c)
			}
			return nil
		},
		"verifAssert": func(fr *frame, a []value) value {
			msg := goString(a[1])
			switch c := a[0].(type) {
			case bool:
				fr.i.ex.nAsserts++
				if !c {
					panic(engineAbort{kind: "violation", msg: msg})
				}
			case *Term:
				fr.i.ex.assert(c, msg)
			}
			return nil
		},
		"verifKnown": func(fr *frame, a []value) value {
			id := goString(a[0])
			if !fr.i.ex.w.cfg.Known[id] {
				return false
			}
			hit := fr.i.truth(a[1])
			if hit {
				fr.i.ex.known = append(fr.i.ex.known, id)
			}
			return hit
		},
		"verifReach": func(fr *frame, a []value) value {
			fr.i.ex.reached = append(fr.i.ex.reached, goString(a[0]))
			return nil
		},
		"verifNoPanic": func(fr *frame, a []value) (res value) {
			i := fr.i
			d0 := i.depth
			sp0 := i.sp
			defer func() {
				if p := recover(); p != nil {
					tp, ok := p.(targetPanic)
					if !ok {
						panic(p)
					}
					i.depth = d0
					i.sp = sp0
					i.ex.panicMsg = i.panicString(tp)
					res = false
				}
			}()
			i.call(fr, 0, a[0], nil)
			return true
		},
		"verifPanicMsg": func(fr *frame, a []value) value { return fr.i.ex.panicMsg },
		"verifBudgetFails": func(fr *frame, a []value) value {
			fr.i.ex.budgetMsg = goString(a[0])
			return nil
		},
		"verifParam": func(fr *frame, a []value) value {
			name := goString(a[0])
			v, ok := fr.i.ex.w.cfg.Params[name]
			if !ok {
				panic(engineAbort{kind: "unsupported", msg: "missing harness parameter " + name})
			}
			return int(v)
		},
		"verifObserve": func(fr *frame, a []value) value {
			ex := fr.i.ex
			ex.observe = append(ex.observe, Obs{Tag: goString(a[0]), Val: fmt.Sprintf("%x", ex.concBytes(a[1]))})
			return nil
		},
		"verifSteps": func(fr *frame, a []value) value { return int(fr.i.steps) },
		"verifIsSym": func(fr *frame, a []value) value {
			v := a[0].(iface).v
			switch v.(type) {
			case *Term, sstring:
				return true
			}
			return false
		},
		"verifConcretize": func(fr *frame, a []value) value {
			if t, ok := a[0].(*Term); ok {
				return int(fr.i.ex.concretize(t))
			}
			return a[0]
		},
		"verifUnderlying": func(fr *frame, a []value) value {
			x := a[0].(iface)
			if x.t == nil {
				return x
			}
			if b, ok := x.t.Underlying().(*types.Basic); ok {
				return iface{t: b, v: x.v}
			}
			if sl, ok := x.t.Underlying().(*types.Slice); ok {
				if _, named := x.t.(*types.Named); named {
					return iface{t: sl, v: x.v}
				}
			}
			return x
		},
		"verifTypeName": func(fr *frame, a []value) value {
			x := a[0].(iface)
			if x.t == nil {
				return "<nil>"
			}
			return types.TypeString(x.t, func(p *types.Package) string { return p.Name() })
		},
		"verifComparable": func(fr *frame, a []value) value {
			x := a[0].(iface)
			return x.t != nil && types.Comparable(x.t)
		},
		"verifAssignTo": func(fr *frame, a []value) value {
			tgt := a[0].(iface)
			err := a[1].(iface)
			if tgt.t == nil || err.t == nil {
				panic(targetPanic{iface{fr.i.P.rtErrType, "errors: target cannot be nil"}})
			}
			pt, ok := tgt.t.Underlying().(*types.Pointer)
			if !ok {
				panic(targetPanic{iface{fr.i.P.rtErrType, "errors: target must be a non-nil pointer"}})
			}
			et := pt.Elem()
			if it, ok := et.Underlying().(*types.Interface); ok {
				if m, _ := types.MissingMethod(err.t, it, true); m != nil {
					return false
				}
				fr.i.store(et, tgt.v, err)
				return true
			}
			if types.Identical(err.t, et) {
				fr.i.store(et, tgt.v, err.v)
				return true
			}
			return false
		},
		"verifInSet": func(fr *frame, a []value) value {
			set := goString(a[1])
			tm, ok := a[0].(*Term)
			if !ok {
				return strings.IndexByte(set, a[0].(uint8)) >= 0
			}
			tt := fr.i.ex.tt
			acc := tt.fls
			for k := 0; k < len(set); k++ {
				acc = tt.Or(acc, tt.Eq(tm, tt.Const(uint64(set[k]), 8)))
			}
			return untermKind(types.Bool, acc)
		},
		"verifChoice": func(fr *frame, a []value) value {
			// an int in [0,n), concretized immediately (one path per value)
			n := asInt64(a[1])
			ex := fr.i.ex
			t := ex.newVar(goString(a[0]), 8)
			ex.assume(ex.tt.Ult(t, ex.tt.Const(uint64(n), 8)))
			return int(ex.concretize(t))
		},
	}

	for name, fn := range map[string]externalFn{
		// strings.Builder: unsafe string view of the buffer
		"(*strings.Builder).String": func(fr *frame, a []value) value {
			b := (*a[0].(*value)).(structure)
			buf := b[1].([]value)
			c := make([]value, len(buf))
			copy(c, buf)
			fr.i.step(int64(len(buf)) / 8)
			return normStr(c)
		},
		"(*strings.Builder).copyCheck": extNop,
		"internal/bytealg.MakeNoZero": func(fr *frame, a []value) value {
			n := int(asInt64(a[0]))
			s := make([]value, n)
			for k := range s {
				s[k] = uint8(0)
			}
			return s
		},
		"internal/bytealg.IndexByte":           extIndexByte,
		"internal/bytealg.IndexByteString":     extIndexByte,
		"internal/bytealg.LastIndexByte":       extLastIndexByte,
		"internal/bytealg.LastIndexByteString": extLastIndexByte,
		"internal/bytealg.Count":               extCountByte,
		"internal/bytealg.CountString":         extCountByte,
		"internal/bytealg.Equal": func(fr *frame, a []value) value {
			return fr.i.seqEq(a[0].([]value), a[1].([]value))
		},
		"internal/bytealg.Compare": func(fr *frame, a []value) value {
			return fr.i.seqCompare(a[0].([]value), a[1].([]value))
		},
		"internal/bytealg.CompareString": func(fr *frame, a []value) value {
			return fr.i.seqCompare(strBytes(a[0]), strBytes(a[1]))
		},
		"internal/bytealg.Index":       extIndexSeq,
		"internal/bytealg.IndexString": extIndexSeq,
		"internal/bytealg.Cutover":     func(fr *frame, a []value) value { return 1 << 30 },
		"internal/stringslite.Index":   extIndexSeq,
		"strings.Index":                extIndexSeq,
		"bytes.Index":                  extIndexSeq,
		"bytes.Equal": func(fr *frame, a []value) value {
			return fr.i.seqEq(a[0].([]value), a[1].([]value))
		},
		"bytes.Compare": func(fr *frame, a []value) value {
			return fr.i.seqCompare(a[0].([]value), a[1].([]value))
		},
		"strings.Compare": func(fr *frame, a []value) value {
			return fr.i.seqCompare(strBytes(a[0]), strBytes(a[1]))
		},
		"(*sync/atomic.Value).Load": func(fr *frame, a []value) value {
			return (*a[0].(*value)).(structure)[0]
		},
		"(*sync/atomic.Value).Store": func(fr *frame, a []value) value {
			st := (*a[0].(*value)).(structure)
			fr.i.write(&st[0], a[1])
			return nil
		},
		"(*sync/atomic.Value).Swap": func(fr *frame, a []value) value {
			st := (*a[0].(*value)).(structure)
			old := st[0]
			fr.i.write(&st[0], a[1])
			return old
		},
		"(*sync/atomic.Value).CompareAndSwap": func(fr *frame, a []value) value {
			st := (*a[0].(*value)).(structure)
			if fr.i.truth(fr.i.eqv(nil, st[0], a[1])) {
				fr.i.write(&st[0], a[2])
				return true
			}
			return false
		},
		"maps.clone": func(fr *frame, a []value) value {
			x := a[0].(iface)
			m, _ := x.v.(*omap)
			if m == nil {
				return x
			}
			n := newMap(m.keyT)
			for _, e := range m.entries {
				if !e.deleted {
					fr.i.mapSet(n, e.key, copyVal(e.val))
				}
			}
			return iface{t: x.t, v: n}
		},
		"slices.overlaps": func(fr *frame, a []value) value {
			x, y := a[0].([]value), a[1].([]value)
			if len(x) == 0 || len(y) == 0 {
				return false
			}
			x0, x1 := uintptr(unsafe.Pointer(&x[0])), uintptr(unsafe.Pointer(&x[len(x)-1]))
			y0, y1 := uintptr(unsafe.Pointer(&y[0])), uintptr(unsafe.Pointer(&y[len(y)-1]))
			return x0 <= y1 && y0 <= x1
		},
		"internal/abi.NoEscape":      func(fr *frame, a []value) value { return a[0] },
		"internal/abi.Escape":        func(fr *frame, a []value) value { return a[0] },
		"runtime.KeepAlive":          extNop,
		"runtime.SetFinalizer":       extNop,
		"runtime.GC":                 extNop,
		"runtime.Gosched":            extNop,
		"runtime.GOMAXPROCS":         func(fr *frame, a []value) value { return 1 },
		"runtime.NumCPU":             func(fr *frame, a []value) value { return 1 },
		"internal/race.Acquire":      extNop,
		"internal/race.Release":      extNop,
		"internal/race.ReleaseMerge": extNop,
		"internal/race.Enable":       extNop,
		"internal/race.Disable":      extNop,
		"internal/race.Read":         extNop,
		"internal/race.Write":        extNop,
		"internal/race.ReadRange":    extNop,
		"internal/race.WriteRange":   extNop,
		"(*sync.Mutex).Lock":         extNop,
		"(*sync.Mutex).Unlock":       extNop,
		"(*sync.Mutex).TryLock":      func(fr *frame, a []value) value { return true },
		"(*sync.RWMutex).Lock":       extNop,
		"(*sync.RWMutex).Unlock":     extNop,
		"(*sync.RWMutex).RLock":      extNop,
		"(*sync.RWMutex).RUnlock":    extNop,
		"(*sync.WaitGroup).Add":      extNop,
		"(*sync.WaitGroup).Done":     extNop,
		"(*sync.WaitGroup).Wait":     extNop,
		"(*sync.WaitGroup).Go": func(fr *frame, a []value) value {
			fr.i.call(fr, 0, a[1], nil)
			return nil
		},
		"(*sync.Pool).Get": func(fr *frame, a []value) value {
			p := (*a[0].(*value)).(structure)
			// last field is New func() any
			newf := p[len(p)-1]
			switch f := newf.(type) {
			case *ssa.Function:
				if f == nil {
					return iface{}
				}
			case nil:
				return iface{}
			}
			return fr.i.call(fr, 0, newf, nil)
		},
		"(*sync.Pool).Put": extNop,
		"(*sync.Once).Do": func(fr *frame, a []value) value {
			o := (*a[0].(*value)).(structure)
			// fields: _ noCopy, done atomic.Uint32, m Mutex
			done := o[1].(structure)
			if bitsU(done[len(done)-1]) != 0 {
				return nil
			}
			fr.i.write(&done[len(done)-1], uint32(1))
			fr.i.call(fr, 0, a[1], nil)
			return nil
		},
		"math.Float64bits":                  func(fr *frame, a []value) value { return math.Float64bits(a[0].(float64)) },
		"math.Float64frombits":              func(fr *frame, a []value) value { return math.Float64frombits(a[0].(uint64)) },
		"math.Float32bits":                  func(fr *frame, a []value) value { return math.Float32bits(a[0].(float32)) },
		"math.Float32frombits":              func(fr *frame, a []value) value { return math.Float32frombits(a[0].(uint32)) },
		"math.Abs":                          func(fr *frame, a []value) value { return math.Abs(a[0].(float64)) },
		"math.Floor":                        func(fr *frame, a []value) value { return math.Floor(a[0].(float64)) },
		"math.floor":                        func(fr *frame, a []value) value { return math.Floor(a[0].(float64)) },
		"math.Sqrt":                         func(fr *frame, a []value) value { return math.Sqrt(a[0].(float64)) },
		"math.sqrt":                         func(fr *frame, a []value) value { return math.Sqrt(a[0].(float64)) },
		"os.Getenv":                         func(fr *frame, a []value) value { return "" },
		"os.LookupEnv":                      func(fr *frame, a []value) value { return tuple{"", false} },
		"os.runtime_args":                   func(fr *frame, a []value) value { return []value{} },
		"internal/godebug.(*Setting).Value": func(fr *frame, a []value) value { return "" },
		"(*internal/godebug.Setting).Value": func(fr *frame, a []value) value { return "" },
		"(*internal/godebug.Setting).IncNonDefault": extNop,
		"internal/godebug.New":                      func(fr *frame, a []value) value { return (*value)(nil) },
		"math/bits.Mul64": func(fr *frame, a []value) value {
			x, xok := a[0].(uint64)
			y, yok := a[1].(uint64)
			if !xok || !yok {
				panic(engineAbort{kind: "unsupported", msg: "symbolic bits.Mul64"})
			}
			hi, lo := mul64(x, y)
			return tuple{hi, lo}
		},
	} {
		externals[name] = fn
	}

	// sync/atomic free functions and typed methods
	for _, ty := range []string{"Int32", "Int64", "Uint32", "Uint64", "Uintptr", "Pointer"} {
		externals["sync/atomic.Load"+ty] = func(fr *frame, a []value) value { return fr.i.load(nil, a[0]) }
		externals["sync/atomic.Store"+ty] = func(fr *frame, a []value) value { fr.i.store(nil, a[0], a[1]); return nil }
		externals["sync/atomic.Swap"+ty] = func(fr *frame, a []value) value {
			old := fr.i.load(nil, a[0])
			fr.i.store(nil, a[0], a[1])
			return old
		}
		externals["sync/atomic.CompareAndSwap"+ty] = func(fr *frame, a []value) value {
			old := fr.i.load(nil, a[0])
			if fr.i.truth(fr.i.eqv(nil, old, a[1])) {
				fr.i.store(nil, a[0], a[2])
				return true
			}
			return false
		}
	}
	for _, ty := range []struct {
		n string
		t types.Type
	}{{"Int32", types.Typ[types.Int32]}, {"Int64", types.Typ[types.Int64]}, {"Uint32", types.Typ[types.Uint32]}, {"Uint64", types.Typ[types.Uint64]}, {"Uintptr", types.Typ[types.Uintptr]}} {
		t := ty.t
		externals["sync/atomic.Add"+ty.n] = func(fr *frame, a []value) value {
			old := fr.i.load(nil, a[0])
			nv := fr.i.binop(12 /*token.ADD*/, t, old, a[1])
			fr.i.store(nil, a[0], nv)
			return nv
		}
	}
}

func bitsU(v value) uint64 {
	b, _ := bitsOf(v)
	return b
}

func mul64(x, y uint64) (hi, lo uint64) {
	const mask32 = 1<<32 - 1
	x0 := x & mask32
	x1 := x >> 32
	y0 := y & mask32
	y1 := y >> 32
	w0 := x0 * y0
	t := x1*y0 + w0>>32
	w1 := t & mask32
	w2 := t >> 32
	w1 += x0 * y1
	hi = x1*y1 + w2 + w1>>32
	lo = x * y
	return
}

func seqOf(v value) []value {
	switch v := v.(type) {
	case []value:
		return v
	case string, sstring:
		return strBytes(v)
	}
	panic(fmt.Sprintf("seqOf: %T", v))
}

// extIndexByte: first index of byte c in s; forks per candidate position
// when symbolic.
func extIndexByte(fr *frame, a []value) value {
	i := fr.i
	s := seqOf(a[0])
	c := a[1]
	i.step(int64(len(s)) / 8)
	for k, b := range s {
		if i.truth(i.byteEq(b, c)) {
			return k
		}
	}
	return -1
}

func extLastIndexByte(fr *frame, a []value) value {
	i := fr.i
	s := seqOf(a[0])
	c := a[1]
	i.step(int64(len(s)) / 8)
	for k := len(s) - 1; k >= 0; k-- {
		if i.truth(i.byteEq(s[k], c)) {
			return k
		}
	}
	return -1
}

func extCountByte(fr *frame, a []value) value {
	i := fr.i
	s := seqOf(a[0])
	c := a[1]
	n := 0
	i.step(int64(len(s)) / 8)
	for _, b := range s {
		if i.truth(i.byteEq(b, c)) {
			n++
		}
	}
	return n
}

func extIndexSeq(fr *frame, a []value) value {
	i := fr.i
	s := seqOf(a[0])
	sep := seqOf(a[1])
	if len(sep) == 0 {
		return 0
	}
	i.step(int64(len(s)) / 4)
	for k := 0; k+len(sep) <= len(s); k++ {
		if i.truth(i.seqEq(s[k:k+len(sep)], sep)) {
			return k
		}
	}
	return -1
}

func (i *Interp) seqEq(a, b []value) value {
	if len(a) != len(b) {
		return false
	}
	var acc value = true
	for k := range a {
		acc = i.andv(acc, i.byteEq(a[k], b[k]))
		if bb, ok := acc.(bool); ok && !bb {
			return false
		}
	}
	return acc
}

func (i *Interp) seqCompare(a, b []value) value {
	n := len(a)
	if len(b) < n {
		n = len(b)
	}
	for k := 0; k < n; k++ {
		if i.truth(i.byteEq(a[k], b[k])) {
			continue
		}
		tt := i.ex
		_ = tt
		var lt value
		at, as := a[k].(*Term)
		bt, bs := b[k].(*Term)
		if !as && !bs {
			lt = a[k].(uint8) < b[k].(uint8)
		} else {
			if !as {
				at = i.term(a[k])
			}
			if !bs {
				bt = i.term(b[k])
			}
			lt = untermKind(types.Bool, i.ex.tt.Ult(at, bt))
		}
		if i.truth(lt) {
			return -1
		}
		return 1
	}
	switch {
	case len(a) < len(b):
		return -1
	case len(a) > len(b):
		return 1
	}
	return 0
}
